"""C04 - no look-ahead: everything recorded up to t ignores all data dated after t (differential fault injection on the future)."""
import hashlib
import random

import numpy as np
import pandas as pd

import bt

from .. import common, instrument as ins, mon1, mon2, w2, w5
from . import _w2case

ID = "C04"
LEVEL = "exploration"
RULE = ("For each generated backtest (W2 grammar: every scheduling/selection/statistic/weighting/rebalancing stock algo incl. lookback+lag windows, "
        "nested trees) and each of k cut dates t (first, penultimate, random): re-run on data whose values dated after t are replaced (prices x "
        "exp(N(0,0.1)) with the NaN pattern kept, boolean signals re-drawn, stat/target-weight/bid-offer frames re-scaled; index and dtypes "
        "unchanged) with identical RNG seeds; compare bit-for-bit the recorded frames of every node (real tree and paper shadows) up to t, the trade "
        "log up to t, and the log of an observation spy (digest of universe/prices/values/positions/fees/flows/cash and children's prices as the "
        "strategy API hands them to user code) placed first and last in every stack. Distinct = W2 signature; non-trivial = >=1 trade before the cut.")
ASSUMPTIONS = ["lags >= 0 only (a negative lag is a request for look-ahead)", "period schedulers may look at the DATES of neighbouring rows; only values are perturbed"]

WINDOWED = ["SelectHasData", "SelectMomentum", "SetStat", "WeighInvVol", "WeighERC", "WeighMeanVar", "TargetVol", "PTE_Rebalance", "WeighTarget", "SelectWhere",
            "UpdateRisk", "HedgeRisks"]


def plan(tier):
    q = tier == "quick"
    return [dict(unit="w2", n=210 if q else 800, builds=["py"] if q else ["py", "so"], case_timeout=300, params={"cuts": 3 if q else 6}),
            dict(unit="w5", n=120 if q else 800, builds=["py"] if q else ["py", "so"], case_timeout=300, params={"cuts": 3 if q else 6})]


def floors(tier):
    c = {"cuts_before_first_value": 60, "cuts_compared": 400, "spy_records_compared": 5000, "frames_compared": 2000, "fi_cuts_compared": 200}
    for a in WINDOWED:
        c["algo_" + a] = 5 if a in ("PTE_Rebalance", "UpdateRisk", "HedgeRisks") else 10
    return {"min_decided": 150, "counters": c, "max_undecided_frac": 0.3}


class ObsCtx(mon2.SharedCtx):
    def __init__(self):
        self.log = []       # (who, node, date, where, digest)
        self.real = None

    def on_built(self, b):
        self.real = b.strategy

    def run_kwargs(self):
        return {"stack_hook": self.hook, "on_built": self.on_built}

    def hook(self, stack, node):
        return [Spy(self, "first")] + list(stack) + [Spy(self, "last")]


def _b(x):
    if isinstance(x, (pd.Series, pd.DataFrame)):
        h = hashlib.sha1()
        h.update(repr(tuple(x.shape)).encode())
        h.update(str(x.index[-1] if len(x.index) else None).encode())
        if isinstance(x, pd.DataFrame):
            h.update(repr(tuple(x.columns)).encode())
        h.update(np.ascontiguousarray(x.to_numpy(dtype=float, na_value=np.nan)).tobytes())
        return h.hexdigest()[:16]
    return repr(x)


class Spy(bt.Algo):
    def __init__(self, ctx, where):
        super(Spy, self).__init__()
        self.ctx = ctx
        self.where = where

    def __call__(self, target):
        ctx = self.ctx
        who = "real" if ins.top(target) is ctx.real else "paper"
        d = [_b(target.universe), _b(target.prices), _b(target.values), _b(target.positions), _b(target.fees), _b(target.flows), _b(target.cash),
             _b(target.price), _b(target.value), _b(target.capital)]
        for c in target.children.values():
            d.append(c.name + ":" + _b(c.prices))
        ctx.log.append((who, target.full_name, target.now, self.where, "|".join(d)))
        return True


def perturb(df, t, rs, boolish, kind="scale"):
    if isinstance(df, dict):
        return {k: perturb(v, t, rs, boolish, kind) for k, v in df.items()}
    df = df.copy()
    mask = np.asarray(df.index > t)
    if mask.sum() == 0:
        return df
    if boolish:
        blk = rs.rand(int(mask.sum()), df.shape[1]) > 0.5 if isinstance(df, pd.DataFrame) else rs.rand(int(mask.sum())) > 0.5
        df.loc[mask] = blk
        return df
    blk = df.loc[mask].to_numpy(dtype=float)
    if kind == "redraw":
        # statistics / unit risks / target weights dated after the cut are replaced outright (same NaN pattern, same row scale)
        new = rs.randn(*blk.shape) if (blk < 0).any() else rs.dirichlet(np.ones(blk.shape[1]), size=blk.shape[0]) * np.nansum(blk, axis=1, keepdims=True)
        blk = np.where(np.isnan(blk), np.nan, new)
    else:
        blk = blk * np.exp(rs.randn(*blk.shape) * 0.1)
    df.loc[mask] = blk
    return df


def run_w5(cs, params):
    """fixed-income backtests: prices, coupons, holding costs, bid/offer and the notional schedule dated after t are replaced"""
    ins.install()
    ins.reset()
    spec = w5.gen(cs)
    sig = ["w5"] + w5.signature(spec)
    base = w5.run_backtest(spec)
    cnt = {}
    if base.exc is not None:
        if isinstance(base.exc, ZeroDivisionError) or common.is_guard_exc(base.exc):
            return common.result(common.OOD, sig=sig, why="zero notional / sizing guard")
        return common.result(common.INC, sig=sig, why="bt raised %s: %s" % (type(base.exc).__name__, str(base.exc)[:100]))
    f0 = mon2.all_frames(base.root)
    dates = list(base.bt.dates)
    t0 = [(e["sec"].full_name, e["date"], e["q"], e["p"], e["cp"]) for e in base.events if e["k"] == "trade"]
    rng = random.Random(cs ^ 0xC04)
    n = len(dates)
    cuts = sorted(set([1, n - 2] + [rng.randint(1, n - 2) for _ in range(max(0, int(params.get("cuts", 3)) - 2))]))
    nt = False
    for k, ci in enumerate(cuts):
        t = dates[ci]
        rs = np.random.RandomState((cs + 7919 * k) % (2 ** 32))
        sp = dict(spec)
        i0 = ci            # rows of the un-extended frames dated after t start at index ci (the backtest index has one synthetic row in front)
        for key in ("prices", "coupons", "cost_long", "cost_short", "bidoffer"):
            if spec.get(key) is None:
                continue
            a = np.array(spec[key], dtype=float)
            if key == "prices":
                pos = a[i0:] > 0
                a[i0:] = np.where(pos, a[i0:] * np.exp(rs.randn(*a[i0:].shape) * 0.05), a[i0:] + rs.randn(*a[i0:].shape) * 0.3 * (a[i0:] != 0))
            else:
                a[i0:] = np.abs(rs.rand(*a[i0:].shape)) * (a.max() if a.max() > 0 else 0.01)
            sp[key] = a.tolist()
        idx_dates = list(pd.date_range(spec["start"], periods=spec["nd"], freq="B"))
        sp["nv"] = [(v if idx_dates[r] <= t else float(rs.choice([1e5, 3e5, 7e4]))) for v, r in zip(spec["nv"], spec["nv_rows"])]
        sp["hedge_trades"] = [tr for tr in spec["hedge_trades"]]
        ins.reset()
        alt = w5.run_backtest(sp)
        common.bump(cnt, "fi_cuts_compared")
        common.bump(cnt, "cuts_compared")
        w = {"cut": str(t), "cut_index": ci, "case_seed": cs, "kinds": spec["kinds"], "fixed_income": True}
        last_alt = mon2.last_row(alt.root) if alt.root is not None else -1
        if alt.exc is not None and last_alt <= ci:
            return common.result(common.VIOL, sig=sig, nt=True, cnt=cnt, mech="c04_future_data_breaks_past",
                                 witness=dict(w, exception="%s: %s" % (type(alt.exc).__name__, str(alt.exc)[:160])))
        f1 = mon2.all_frames(alt.root)
        common.bump(cnt, "frames_compared", len(f0))
        d = ins.first_frame_diff(f0, f1, upto=ci + 1)
        if d:
            return common.result(common.VIOL, sig=sig, nt=True, cnt=cnt, mech="c04_frames", witness=dict(w, **d))
        t1 = [(e["sec"].full_name, e["date"], e["q"], e["p"], e["cp"]) for e in alt.events if e["k"] == "trade"]
        a_ = [tuple(map(str, x)) for x in t0 if x[1] <= t]
        b_ = [tuple(map(str, x)) for x in t1 if x[1] <= t]
        if a_:
            nt = True
        if a_ != b_:
            return common.result(common.VIOL, sig=sig, nt=True, cnt=cnt, mech="c04_trades", witness=dict(w, trades_base=len(a_), trades_perturbed=len(b_)))
    return common.result(common.HELD, sig=sig, nt=nt, cnt=cnt, sample=w5.sample_of(spec))


def run_case(unit, cs, idx, build, params):
    if unit == "w5":
        return run_w5(cs, params)
    ins.install()
    ins.reset()
    spec = w2.gen(cs, risk=0.15, fills=0.3, nan_gaps=0.5, high_prices=0.3)
    sig = w2.signature(spec)
    sample = w2.sample_of(spec)
    ctx0 = ObsCtx()
    base = w2.run(spec, **ctx0.run_kwargs())
    cnt = {}
    if base.exc is not None:
        v, why = _w2case.classify_exc(base.exc, spec)
        return common.result(v, sig=sig, why=why, sample=sample)
    for name in set(w2.algo_names(spec)):
        common.bump(cnt, "algo_" + name)
    f0 = mon2.all_frames(base.root)
    dates = list(base.bt.dates)
    t0 = [(e["sec"].full_name, e["date"], e["q"], e["p"], e["cp"]) for e in base.events if e["k"] == "trade"]
    common.bump(cnt, "trades", len(t0))
    rng = random.Random(cs ^ 0xC04)
    n = len(dates)
    cuts = [1, n - 2]
    while len(cuts) < int(params.get("cuts", 2)):
        cuts.append(rng.randint(1, n - 2))
    # cut right before a blank cell gets its first value (a late listing, a name that gets its first target / statistic late): the future value
    # sits in the very next row, where a fill or an off-by-one reaches it
    trans = set()
    grids = [np.array(spec["prices"], dtype=float)]
    for f in spec["extras"].values():
        if f.get("nan_gaps") and f.get("rows") in (None, list(range(spec["nd"]))):
            grids.append(np.array(f["values"], dtype=float))
    for a in grids:
        isn = np.isnan(a)
        for i, j in zip(*np.nonzero(isn[:-1] & ~isn[1:])):
            if 1 <= i + 1 <= n - 2:
                trans.add(int(i) + 1)
    extra_cuts = rng.sample(sorted(trans), min(2, len(trans)))
    common.bump(cnt, "cuts_before_first_value", len(extra_cuts))
    cuts = sorted(set(cuts + extra_cuts))
    idx0, data0, extras0 = w2.frames_of(spec)
    nt = False
    for k, ci in enumerate(cuts):
        t = dates[ci]
        rs = np.random.RandomState((cs + 7919 * k) % (2 ** 32))
        pdata = perturb(data0, t, rs, False)
        pex = {}
        for name, fr in extras0.items():
            kind = "redraw" if (name.endswith(("stat", "tw")) or name == "unit_risk") else "scale"
            pex[name] = perturb(fr, t, rs, bool(spec["extras"][name].get("bool")), kind)
        ins.reset()
        ctx1 = ObsCtx()
        alt = w2.run(spec, data=pdata, extras=pex, **ctx1.run_kwargs())
        common.bump(cnt, "cuts_compared")
        last_alt = mon2.last_row(alt.root) if alt.root is not None else -1
        w = {"cut": str(t), "cut_index": ci, "case_seed": cs, "desc": spec["desc"]}
        if alt.exc is not None and last_alt <= ci:
            # the perturbed future made the run fail at or before the cut
            if isinstance(alt.exc, ZeroDivisionError) or common.is_guard_exc(alt.exc):
                pass
            return common.result(common.VIOL, sig=sig, nt=True, cnt=cnt, mech="c04_future_data_breaks_past", sample=sample,
                                 witness=dict(w, exception="%s: %s" % (type(alt.exc).__name__, str(alt.exc)[:160]), reached=str(alt.root.now) if alt.root is not None else None))
        f1 = mon2.all_frames(alt.root)
        common.bump(cnt, "frames_compared", len(f0))
        d = ins.first_frame_diff(f0, f1, upto=ci + 1)
        if d and d.get("what") in ("missing in second run", "missing in first run"):
            # a lazily created node that only exists in one run: it must be flat up to the cut in the run that has it
            fa, fb = ({k_: v for k_, v in f0.items() if k_ in f1}, {k_: v for k_, v in f1.items() if k_ in f0})
            d = ins.first_frame_diff(fa, fb, upto=ci + 1)
            for src in (f0, f1):
                for name_, (cols, arr) in src.items():
                    if name_ in f0 and name_ in f1:
                        continue
                    if "position" in cols and np.nan_to_num(arr[: ci + 1, cols.index("position")]).any():
                        d = {"node": name_, "what": "node traded before the cut in one run only"}
        if d:
            return common.result(common.VIOL, sig=sig, nt=True, cnt=cnt, mech="c04_frames", witness=dict(w, **d), sample=sample)
        t1 = [(e["sec"].full_name, e["date"], e["q"], e["p"], e["cp"]) for e in alt.events if e["k"] == "trade"]
        a = [x for x in t0 if x[1] <= t]
        b = [x for x in t1 if x[1] <= t]
        if a:
            nt = True
        if [tuple(map(str, x)) for x in a] != [tuple(map(str, x)) for x in b]:
            return common.result(common.VIOL, sig=sig, nt=True, cnt=cnt, mech="c04_trades", witness=dict(w, trades_base=len(a), trades_perturbed=len(b)), sample=sample)
        la = [x for x in ctx0.log if (isinstance(x[2], int) or x[2] <= t)]
        lb = [x for x in ctx1.log if (isinstance(x[2], int) or x[2] <= t)]
        common.bump(cnt, "spy_records_compared", len(la))
        if la != lb:
            j = next((i for i in range(min(len(la), len(lb))) if la[i] != lb[i]), min(len(la), len(lb)))
            x = la[j] if j < len(la) else None
            y = lb[j] if j < len(lb) else None
            fields = ["universe", "prices", "values", "positions", "fees", "flows", "cash", "price", "value", "capital"]
            which = None
            if x and y and x[:4] == y[:4]:
                xa, ya = x[4].split("|"), y[4].split("|")
                which = [fields[i] if i < len(fields) else xa[i].split(":")[0] for i in range(min(len(xa), len(ya))) if xa[i] != ya[i]]
            return common.result(common.VIOL, sig=sig, nt=True, cnt=cnt, mech="c04_observation", sample=sample,
                                 witness=dict(w, record=j, base=[str(v) for v in x[:4]] if x else None, perturbed=[str(v) for v in y[:4]] if y else None, differing=which))
    return common.result(common.HELD, sig=sig, nt=nt, cnt=cnt, sample=sample)
