"""C08 - idempotent updates, fresh reads, append-only history, nothing beyond now."""
from .. import mon1
from . import _w1case

ID = "C08"
LEVEL = "exploration"
RULE = ("W1: (a) raw private state + recorded frames identical after 1-3 redundant update calls (root and random strategy nodes) following "
        "every operation; (b) on deep copies of a tree with pending changes the FIRST read of one random property equals the read after an "
        "explicit update; (c) rows of earlier dates hashed at each date change never change; (d) every series accessor ends at or before now. "
        "Non-trivial: >=1 trade and >=3 ops; distinct by case signature.")
ASSUMPTIONS = ["private scalars of lazily skipped (flat) securities are excluded from redundant explicit security updates"]


def plan(tier):
    n = 1200 if tier == "quick" else 30000
    return [dict(unit="w1", n=n, builds=["py", "so"], case_timeout=60), dict(unit="w1fresh", n=n // 2, builds=["py", "so"], case_timeout=60)]


def floors(tier):
    return {"min_decided": 300, "counters": {"idempotence_evals": 3000, "append_only_evals": 500, "no_future_evals": 3000, "freshness_evals": 500},
            "max_undecided_frac": 0.4}


def classify(mech, w, drv):
    return mech


def run_case(unit, cs, idx, build, params):
    if unit == "w1fresh":
        return _w1case.run_w1(cs, [mon1.Freshness(cs)])
    return _w1case.run_w1(cs, [mon1.Idempotence(cs)])
