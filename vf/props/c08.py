"""C08 - idempotent updates, fresh reads, append-only history, nothing beyond now."""
from .. import common, instrument as ins, mon1, mon2, w2
from . import _diff, _w1case, _w2case

ID = "C08"
KNOWN_CEILING = {'k5_weight': 0.01, 'k14_bankruptcy_date_float_order': 0.01, 'k15_position_read_before_liquidating_update': 0.01}   # share of all evaluations a known finding may reach before it counts as a violation again
LEVEL = "exploration"
RULE = ("W1: (a) raw private state + recorded frames identical after 1-3 redundant update calls (root and random strategy nodes) following "
        "every operation; (b) on deep copies of a tree with pending changes the FIRST read of one random property equals the read after an "
        "explicit update; (c) rows of earlier dates hashed at each date change never change; (d) every series accessor ends at or before now. "
        "Non-trivial: >=1 trade and >=3 ops; distinct by case signature.")
ASSUMPTIONS = ["private scalars of lazily skipped (flat) securities are excluded from redundant explicit security updates"]


def plan(tier):
    n = 1200 if tier == "quick" else 12000
    return [dict(unit="w1", n=n, builds=["py", "so"], case_timeout=60), dict(unit="w1fresh", n=n // 2, builds=["py", "so"], case_timeout=60),
            dict(unit="w2inject", n=150 if tier == "quick" else 1600, builds=["py", "so"], case_timeout=180),
            dict(unit="w2injectlev", n=150 if tier == "quick" else 1600, builds=["py", "so"], case_timeout=180)]


def floors(tier):
    return {"min_decided": 300, "counters": {"idempotence_evals": 3000, "append_only_evals": 500, "no_future_evals": 3000, "freshness_evals": 500, "derived_read_evals": 5000, "injected_updates": 500, "injected_reads": 500, "injected_bankrupt_runs": 8, "end_of_update_injections": 500, "frames_compared": 500},
            "max_undecided_frac": 0.4}


def classify(mech, w, drv):
    return mech


def run_inject(cs, lev=False):
    # lev: flat leveraged stacks over jumping prices - the root goes bankrupt mid-run and is liquidated inside an update; redundant updates and
    # reads on that very date must not change what is recorded for it
    spec = w2.gen(cs, leverage=True, jumps=2, flows=False, solvers=False, late_p=0.2, nested_p=0.0) if lev else w2.gen(cs, fills=0.3)
    ctx_box = []

    def mk():
        c = mon2.InjectCtx(cs)
        ctx_box.append(c)
        return c

    ctx_b = mk()
    a, b, fa, fb, ta, tb = _diff.run_pair(spec, {}, ctx_b.run_kwargs(), before_b=lambda: ins.ON_UPDATE_DONE.append(ctx_b.on_update))
    sig = w2.signature(spec)
    sample = w2.sample_of(spec)
    cnt = {}
    ctx = ctx_box[0]
    if a.exc is not None or b.exc is not None:
        if a.exc is not None and b.exc is not None and type(a.exc) is type(b.exc):
            v, why = _w2case.classify_exc(a.exc, spec)
            return common.result(v, sig=sig, why=why, sample=sample)
        if a.exc is None:
            return common.result(common.VIOL, sig=sig, nt=True, mech="c08_injection_raises", sample=sample,
                                 witness={"exception_with_redundant_calls": repr(b.exc)[:300], "updates": ctx.updates, "reads": ctx.reads, "case_seed": cs})
        v, why = _w2case.classify_exc(a.exc, spec)
        return common.result(v, sig=sig, why=why, sample=sample)
    common.bump(cnt, "injected_updates", ctx.updates)
    common.bump(cnt, "injected_reads", ctx.reads)
    common.bump(cnt, "end_of_update_injections", getattr(ctx, "end_of_update_injections", 0))
    common.bump(cnt, "frames_compared", len(fa))
    common.bump(cnt, "trades", len(ta))
    if a.root is not None and a.root.bankrupt:
        common.bump(cnt, "injected_bankrupt_runs")
    d = ins.first_frame_diff(fa, fb)
    nt = len(ta) >= 1 and (ctx.updates + ctx.reads) >= 3
    if d:
        d.update(case_seed=cs, desc=spec["desc"], updates=ctx.updates, reads=ctx.reads)
        mech = "c08_injection"
        if a.root.bankrupt:
            # K14: an extra update placed between the algos of the date on which the root goes under discovers the negative value earlier, so
            # the liquidation (a side effect of update) is executed at another point of the date's trade sequence; the date's fees / cash then
            # differ in their last bits (float summation order). Anything larger than that is not this mechanism.
            V = a.root.data["value"].to_numpy(dtype=float)
            neg = [i for i in range(len(V)) if V[i] < 0]
            if neg and d.get("row") is not None and d["row"] >= neg[0] and ins.first_frame_diff(fa, fb, rel=1e-12, abs_tol=1e-12) is None:
                mech = "k14_bankruptcy_date_float_order"
        return common.result(common.VIOL, sig=sig, nt=True, cnt=cnt, mech=mech, witness=d, sample=sample)
    if ta != tb:
        return common.result(common.VIOL, sig=sig, nt=True, cnt=cnt, mech="c08_injection_trades", witness={"case_seed": cs, "trades_base": len(ta), "trades_injected": len(tb)}, sample=sample)
    return common.result(common.HELD, sig=sig, nt=nt, cnt=cnt, sample=sample)


def run_case(unit, cs, idx, build, params):
    if unit == "w2inject":
        return run_inject(cs)
    if unit == "w2injectlev":
        return run_inject(cs, lev=True)
    if unit == "w1fresh":
        return _w1case.run_w1(cs, [mon1.Freshness(cs), mon1.DerivedReads(cs)])
    return _w1case.run_w1(cs, [mon1.Idempotence(cs)])
