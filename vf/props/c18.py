"""C18 - reports agree with the node histories they summarise; ReplayTransactions reproduces a run."""
import collections
import contextlib
import io
import random

import numpy as np
import pandas as pd

import bt
from bt import algos
from bt.core import SecurityBase, StrategyBase

from .. import common, instrument as ins, w2, w5
from . import _w2case

ID = "C18"
LEVEL = "exploration"
RULE = ("Every finished generated backtest (W2: flat and nested, shared tickers, runs without trades, shorts, bid/offer on or off; W5: fixed-income) "
        "is summarised through Backtest.weights / security_weights / positions / herfindahl_index / turnover, Result.prices and get_transactions, and "
        "each report is recomputed from the node histories: weights = node values / root values (notional for FI), security weights aggregate "
        "same-named nodes and with all cash fractions sum to 1, positions aggregate per ticker, transaction quantities cumulate to the positions and "
        "prices are reference price + spread paid per unit, turnover = min(sum positive outlays, |sum negative outlays|) / value, HHI = sum w^2. Unit "
        "'replay': the transaction list of a commission-free run is fed to ReplayTransactions on a fresh flat strategy; positions equal, values equal "
        "to 1e-9. Distinct = W2/W5 signature + (no trades, shorts, shared tickers); non-trivial = >= 1 trade (no-trade runs are counted separately).")
ASSUMPTIONS = ["identities involving a division are asserted where |root value| > 1e-9", "replay needs eager Security children and a zero bid/offer frame (by design of the algo)"]


def plan(tier):
    q = tier == "quick"
    return [dict(unit="reports", n=300 if q else 3200, builds=["py", "so"], case_timeout=180),
            dict(unit="fi", n=100 if q else 1200, builds=["py"], case_timeout=180),
            dict(unit="mixed", n=100 if q else 1200, builds=["py"], case_timeout=180),
            dict(unit="replay", n=200 if q else 2400, builds=["py", "so"], case_timeout=180)]


def floors(tier):
    return {"min_decided": 700, "counters": {"report_evals": 4000, "tx_rows": 5000, "runs_no_trades": 15, "runs_with_shorts": 40, "runs_shared_tickers": 40,
                                             "replays": 200, "fi_runs": 80, "mixed_runs": 40}, "max_undecided_frac": 0.3}


def close(a, b, rtol=1e-9, atol=1e-12):
    a = np.asarray(a, dtype=float)
    b = np.asarray(b, dtype=float)
    return a.shape == b.shape and np.allclose(a, b, rtol=rtol, atol=atol, equal_nan=True)


def check_reports(run, cnt, fi=False):
    t = run.bt
    root = t.strategy
    with contextlib.redirect_stdout(io.StringIO()), contextlib.redirect_stderr(io.StringIO()):
        res = bt.backtest.Result(t)
    V = root.values
    NV = root.notional_values
    base = NV if fi else V
    secs = [m for m in root.members if isinstance(m, SecurityBase)]
    strs = [m for m in root.members if isinstance(m, StrategyBase)]
    byname = collections.OrderedDict()
    for s in secs:
        byname.setdefault(s.name, []).append(s)
    ntr = sum(1 for e in run.events if e["k"] == "trade")
    if ntr == 0:
        common.bump(cnt, "runs_no_trades")
    if any(e["pos1"] < 0 for e in run.events if e["k"] == "trade"):
        common.bump(cnt, "runs_with_shorts")
    if any(len(v) > 1 for v in byname.values()):
        common.bump(cnt, "runs_shared_tickers")
    ok = base.abs() > 1e-9
    W = t.weights
    for m in root.members:
        exp = (m.notional_values if fi else m.values) / base
        common.bump(cnt, "report_evals")
        if m.full_name not in W.columns or not close(W[m.full_name][ok], exp.reindex(W.index)[ok], rtol=1e-12, atol=0):
            return ("c18_weights", {"node": m.full_name})
    SW = t.security_weights
    for n, lst in byname.items():
        exp = sum((s.notional_values if fi else s.values).reindex(V.index).fillna(0.0) for s in lst) / base
        common.bump(cnt, "report_evals")
        if n not in SW.columns or not close(SW[n][ok], exp[ok]):
            return ("c18_security_weights", {"ticker": n, "holders": len(lst)})
    if len(SW.columns) != len(byname):
        return ("c18_security_weights", {"columns": list(SW.columns), "expected": list(byname)})
    if not fi and len(secs):
        tot = SW.sum(axis=1) + sum(s.cash.loc[: root.now] for s in strs) / V
        common.bump(cnt, "report_evals")
        if not np.allclose(tot[ok].values, 1.0, atol=1e-9):
            return ("c18_weights_do_not_sum_to_one", {"max_dev": float((tot[ok] - 1).abs().max())})
    POS = t.positions
    for n, lst in byname.items():
        exp = sum(s.positions.reindex(V.index).fillna(0.0) for s in lst)
        common.bump(cnt, "report_evals")
        if n not in POS.columns or not close(POS[n].reindex(V.index).fillna(0.0), exp, atol=1e-9):
            return ("c18_positions", {"ticker": n, "holders": len(lst)})
    to_always = t.turnover       # a report must be computable for any finished run, also one without securities
    hh_always = t.herfindahl_index
    if len(to_always) != len(V) or len(hh_always) != len(V):
        return ("c18_turnover", {"what": "length", "turnover": len(to_always), "hhi": len(hh_always), "dates": len(V)})
    if len(secs):
        hh = t.herfindahl_index
        common.bump(cnt, "report_evals")
        if not close(hh, (SW ** 2).sum(axis=1)):
            return ("c18_herfindahl", {})
        to = t.turnover
        O = pd.DataFrame({n: sum(s.outlays.reindex(V.index).fillna(0.0) for s in lst) for n, lst in byname.items()})
        pos_o = O.clip(lower=0).sum(axis=1)
        neg_o = (-O.clip(upper=0)).sum(axis=1)
        exp = pd.concat([pos_o, neg_o], axis=1).min(axis=1) / V
        common.bump(cnt, "report_evals")
        if not close(to[ok], exp.reindex(to.index)[ok]):
            return ("c18_turnover", {"max_dev": float((to - exp.reindex(to.index)).abs().max())})
    common.bump(cnt, "report_evals")
    if not np.array_equal(res.prices[t.name].values, root.prices.values):
        return ("c18_result_prices", {})
    tx = res.get_transactions()
    if not (list(tx.index.names) == ["Date", "Security"] and list(tx.columns) == ["price", "quantity"]):
        return ("c18_transactions_shape", {"index": list(tx.index.names), "columns": list(tx.columns)})
    have = set(tx.index.get_level_values("Security")) if len(tx) else set()
    bo_on = "bidoffer" in t.additional_data
    for n, lst in byname.items():
        exp = sum(s.positions.reindex(V.index).fillna(0.0) for s in lst)
        if n in have:
            sub = tx.xs(n, level="Security")
            q = sub["quantity"].reindex(exp.index).fillna(0).cumsum()
        else:
            sub = None
            q = exp * 0
        common.bump(cnt, "report_evals")
        if not close(q, exp, atol=1e-6, rtol=1e-9):
            return ("c18_transactions_quantity", {"ticker": n, "holders": len(lst), "max_dev": float((q - exp).abs().max())})
        if sub is None:
            continue
        for dt, row in sub.iterrows():
            common.bump(cnt, "tx_rows")
            qd = row["quantity"]
            p = lst[0].prices[dt]
            # execution price per unit: the spread paid by every holder (it carries the holder's multiplier) over the traded quantity
            paid = sum(((s.bidoffers_paid.get(dt, 0.0) / s.multiplier) if bo_on else 0.0) for s in lst)
            exp_p = p + paid / qd
            if not abs(row["price"] - exp_p) <= 1e-9 * (1 + abs(exp_p)):
                mech = "c18_transactions_price"
                return (mech, {"ticker": n, "date": str(dt), "reported": row["price"], "expected": exp_p, "quantity": qd, "holders": len(lst), "bidoffer": bo_on})
    return None


def case_reports(cs):
    ins.install()
    ins.reset()
    spec = w2.gen(cs, nested_p=0.5, peek=0.35)
    run = w2.run(spec)
    sig = w2.signature(spec)
    sample = w2.sample_of(spec)
    cnt = {}
    if run.exc is not None:
        v, why = _w2case.classify_exc(run.exc, spec)
        return common.result(v, sig=sig, why=why, sample=sample)
    try:
        out = check_reports(run, cnt)
    except Exception as e:
        import traceback

        return common.result(common.VIOL, sig=sig, nt=True, cnt=cnt, mech="c18_report_raises", sample=sample,
                             witness={"case_seed": cs, "desc": spec["desc"], "exception": "%s: %s" % (type(e).__name__, str(e)[:160]), "trace": traceback.format_exc()[-400:]})
    ntr = sum(1 for e in run.events if e["k"] == "trade")
    if out:
        return common.result(common.VIOL, sig=sig, nt=True, cnt=cnt, mech=out[0], witness=dict(out[1], case_seed=cs, desc=spec["desc"]), sample=sample)
    return common.result(common.HELD, sig=sig + [ntr == 0], nt=True, cnt=cnt, sample=sample)


def case_fi(cs):
    ins.reset()
    spec = w5.gen(cs)
    run = w5.run_backtest(spec)
    sig = w5.signature(spec)
    cnt = {}
    if run.exc is not None:
        if isinstance(run.exc, ZeroDivisionError) or common.is_guard_exc(run.exc):
            return common.result(common.OOD, sig=sig, why="zero notional / sizing guard")
        return common.result(common.INC, sig=sig, why="bt raised %s: %s" % (type(run.exc).__name__, str(run.exc)[:100]))
    common.bump(cnt, "fi_runs")
    try:
        out = check_reports(run, cnt, fi=True)
    except Exception as e:
        return common.result(common.VIOL, sig=sig, nt=True, cnt=cnt, mech="c18_report_raises", witness={"case_seed": cs, "exception": "%s: %s" % (type(e).__name__, str(e)[:160])})
    if out:
        return common.result(common.VIOL, sig=sig, nt=True, cnt=cnt, mech=out[0], witness=dict(out[1], case_seed=cs, fixed_income=True))
    return common.result(common.HELD, sig=sig, nt=True, cnt=cnt, sample=w5.sample_of(spec))


def case_mixed(cs):
    """bond-like and hedge securities held under an ordinary market-value strategy: every report stays value-based"""
    ins.reset()
    spec = w5.gen(cs)
    run = w5.run_backtest(spec, market_value=True)
    sig = ["mixed"] + w5.signature(spec)
    cnt = {}
    if run.exc is not None:
        if isinstance(run.exc, ZeroDivisionError) or common.is_guard_exc(run.exc):
            return common.result(common.OOD, sig=sig, why="zero base / sizing guard")
        return common.result(common.INC, sig=sig, why="bt raised %s: %s" % (type(run.exc).__name__, str(run.exc)[:100]))
    common.bump(cnt, "mixed_runs")
    try:
        out = check_reports(run, cnt, fi=False)
    except Exception as e:
        return common.result(common.VIOL, sig=sig, nt=True, cnt=cnt, mech="c18_report_raises", witness={"case_seed": cs, "exception": "%s: %s" % (type(e).__name__, str(e)[:160])})
    if out:
        return common.result(common.VIOL, sig=sig, nt=True, cnt=cnt, mech=out[0], witness=dict(out[1], case_seed=cs, kinds=dict(zip(spec["names"], spec["kinds"])), root="market-value strategy"))
    return common.result(common.HELD, sig=sig, nt=True, cnt=cnt, sample=w5.sample_of(spec))


def case_replay(cs):
    ins.install()
    ins.reset()
    spec = w2.gen(cs, comms=["none"], flows=False, nested_p=0.3, pte=False)
    sig = w2.signature(spec)
    sample = w2.sample_of(spec)
    run = w2.run(spec)
    cnt = {}
    if run.exc is not None:
        v, why = _w2case.classify_exc(run.exc, spec)
        return common.result(v, sig=sig, why=why, sample=sample)
    root = run.root
    if root.bankrupt:
        return common.result(common.OOD, sig=sig, why="bankrupt run (liquidation is not a replayable order flow)", sample=sample)
    secs = [m for m in root.members if isinstance(m, SecurityBase)]
    mults = {}
    for s in secs:
        mults.setdefault(s.name, set()).add(s.multiplier)
    if any(len(v) > 1 for v in mults.values()):
        return common.result(common.OOD, sig=sig, why="one ticker held with two multipliers cannot be replayed on a flat tree", sample=sample)
    tx = root.get_transactions()
    if len(tx) == 0:
        return common.result(common.HELD, sig=sig + ["notrades"], nt=False, cnt={"runs_no_trades": 1}, sample=sample)
    idx, data, extras = w2.frames_of(spec)
    ex2 = {"tx": tx, "bidoffer": pd.DataFrame(0.0, index=data.index, columns=data.columns)}
    rp = bt.Strategy("replay", [algos.ReplayTransactions("tx")], children=[bt.Security(n, multiplier=list(m)[0]) for n, m in mults.items()])
    t2 = bt.Backtest(rp, data, integer_positions=False, additional_data=ex2, initial_capital=spec["capital"])
    shared_bo = "bidoffer" in spec["extras"] and len(secs) > len(mults)
    w = {"case_seed": cs, "desc": spec["desc"]}
    try:
        t2.run()
    except Exception as e:
        return common.result(common.VIOL, sig=sig, nt=True, mech="c18_replay_raises", witness=dict(w, exception="%s: %s" % (type(e).__name__, str(e)[:160])), sample=sample)
    common.bump(cnt, "replays")
    p1 = run.bt.positions
    p2 = t2.strategy.positions
    for c in p1.columns:
        if c not in p2.columns or not np.allclose(p1[c].values, p2[c].reindex(p1.index).fillna(0).values, atol=1e-9):
            return common.result(common.VIOL, sig=sig, nt=True, cnt=cnt, mech="c18_replay_positions", witness=dict(w, ticker=c), sample=sample)
    v1 = root.values
    v2 = t2.strategy.values
    if not np.allclose(v1.values, v2.values, rtol=1e-9, atol=1e-6):
        mech = "c18_replay_values"
        # same-date round trips that net to zero cannot appear in a list built from position differences
        net, gross = {}, {}
        for e in run.events:
            if e["k"] == "trade":
                kk = (e["date"], e["sec"].name)
                net[kk] = net.get(kk, 0.0) + (e["pos1"] - e["pos0"])
                gross[kk] = gross.get(kk, 0.0) + abs(e["pos1"] - e["pos0"])
        offs = sorted(kk[0] for kk in net if abs(net[kk]) < 1e-12 and gross[kk] > 0)
        bad = np.abs(v1.values - v2.values) > 1e-6 + 1e-9 * np.abs(v1.values)
        first_bad = v1.index[int(np.argmax(bad))]
        if "bidoffer" in spec["extras"] and offs and first_bad == offs[0]:
            mech = "k12_same_date_round_trip_missing_from_transactions"
            w = dict(w, first_round_trip=str(offs[0]), round_trips=len(offs))
        return common.result(common.VIOL, sig=sig, nt=True, cnt=cnt, mech=mech, witness=dict(w, max_abs_diff=float(np.abs(v1.values - v2.values).max())), sample=sample)
    return common.result(common.HELD, sig=sig, nt=True, cnt=cnt, sample=sample)


def run_case(unit, cs, idx, build, params):
    if unit == "fi":
        return case_fi(cs)
    if unit == "mixed":
        return case_mixed(cs)
    if unit == "replay":
        return case_replay(cs)
    return case_reports(cs)
