"""C11 - backtests are isolated, repeatable and never mutate their inputs."""
import copy
import hashlib
import json
import os
import pickle
import random
import subprocess
import sys

import numpy as np
import pandas as pd

import bt

from .. import common, instrument as ins, mon2, w2
from . import _w2case

ID = "C11"
LEVEL = "exploration"
RULE = ("Unit 'iso': per generated W2 case (stateful and random algos included) - digest of the template object graph and of every input frame before "
        "construction, after construction and after the run; three backtests built from ONE template with different settings run in permuted and "
        "interleaved orders must reproduce the frames of the same backtest run alone from a fresh template; run() on a finished backtest adds no "
        "algo invocation and changes no frame. Unit 'hashseed': batches of cases executed in separate interpreter processes with PYTHONHASHSEED in "
        "{0,1,2,random} and after an unrelated warm-up workload; digests of all recorded frames must be identical. Distinct = W2 signature; "
        "non-trivial = >=1 trade.")
ASSUMPTIONS = ["random algos are made repeatable by seeding Python's and numpy's global generators before each run",
               "benchmark_random renames its random_strategy argument in place outside Backtest construction/run; not part of the oracle"]

BATCH = 12
SETTINGS = [dict(integer_positions=True, comm="prop"), dict(integer_positions=False, comm="none"), dict(integer_positions=True, comm="prop")]


def plan(tier):
    q = tier == "quick"
    return [dict(unit="iso", n=100 if q else 1000, builds=["py", "so"], case_timeout=300),
            dict(unit="hashseed", n=6 if q else 100, builds=["py", "so"], case_timeout=900, chunk=1)]


def floors(tier):
    return {"min_decided": 100, "counters": {"orders_compared": 300, "input_digests": 1000, "rerun_checks": 80, "hashseed_runs": 300, "hashseed_cases": 70},
            "max_undecided_frac": 0.35}


def frame_digest(df):
    if isinstance(df, dict):
        return hashlib.sha1("|".join(k + ":" + frame_digest(v) for k, v in sorted(df.items())).encode()).hexdigest()
    if isinstance(df, pd.DataFrame) and any(str(t).startswith("datetime") for t in df.dtypes):
        return hashlib.sha1(pd.util.hash_pandas_object(df, index=True).values.tobytes() + repr(list(df.columns)).encode()).hexdigest()
    h = hashlib.sha1()
    h.update(repr(tuple(df.shape)).encode())
    h.update(repr(list(map(str, df.index[:3]))).encode() + repr(len(df.index)).encode())
    if isinstance(df, pd.DataFrame):
        h.update(repr(list(df.columns)).encode() + repr(list(map(str, df.dtypes))).encode())
        h.update(np.ascontiguousarray(df.to_numpy(dtype=float, na_value=np.nan)).tobytes())
    else:
        h.update(np.ascontiguousarray(df.to_numpy(dtype=float, na_value=np.nan)).tobytes())
    return h.hexdigest()


def template_digest(s):
    try:
        return hashlib.sha1(pickle.dumps(s, protocol=4)).hexdigest()
    except Exception:
        return hashlib.sha1(repr(_walk(s, set())).encode()).hexdigest()


def _walk(o, seen, depth=0):
    if id(o) in seen or depth > 12:
        return "<seen>"
    if isinstance(o, (int, float, str, bool, type(None))):
        return repr(o)
    seen.add(id(o))
    if isinstance(o, (pd.DataFrame, pd.Series)):
        return frame_digest(o)
    if isinstance(o, dict):
        return {repr(k): _walk(v, seen, depth + 1) for k, v in o.items()}
    if isinstance(o, (list, tuple, set)):
        return [_walk(v, seen, depth + 1) for v in o]
    if hasattr(o, "__dict__"):
        return (type(o).__name__, {k: _walk(v, seen, depth + 1) for k, v in sorted(vars(o).items())})
    return repr(o)[:80]


def run_digest(root):
    h = hashlib.sha1()
    for k, (cols, arr) in sorted(mon2.all_frames(root).items()):
        h.update(k.encode() + repr(cols).encode())
        h.update(np.ascontiguousarray(arr).tobytes())
    return h.hexdigest()


class CountSpy(bt.Algo):
    N = {}

    def __init__(self, key):
        super(CountSpy, self).__init__()
        self.key = key

    def __call__(self, t):
        CountSpy.N[self.key] = CountSpy.N.get(self.key, 0) + 1
        return True


def mkbt(tpl, data, extras, k, name):
    s = SETTINGS[k]
    return bt.Backtest(tpl, data, name=name, integer_positions=s["integer_positions"], commissions=(ins.Comm(s["comm"]) if s["comm"] != "none" else None),
                       additional_data=dict(extras))


def seeded_run(t, cs):
    random.seed(cs)
    np.random.seed(cs % (2 ** 32))
    t.run()


def case_iso(cs):
    ins.install()
    ins.reset()
    spec = w2.gen(cs, solvers=False, closeroll=0.4, risk=0.2)
    sig = w2.signature(spec)
    sample = w2.sample_of(spec)
    idx, data, extras = w2.frames_of(spec)
    cnt = {}

    def fresh():
        m = w2.make(spec, stack_hook=lambda st, node: [CountSpy((node["name"]))] + list(st))
        return m["strategy"]

    def alone(k):
        t = mkbt(fresh(), data, extras, k, "n%d" % k)
        seeded_run(t, cs)
        return run_digest(t.strategy)

    # digests of everything handed to bt, taken BEFORE the first Backtest is constructed
    tpl = fresh()
    d_tpl = template_digest(tpl)
    d_in = {"data": frame_digest(data)}
    for k, v in extras.items():
        d_in[k] = frame_digest(v)
    for a in _frames_in_algos(tpl):
        d_in["algo:%d" % id(a)] = frame_digest(a)
    w = {"case_seed": cs, "desc": spec["desc"]}
    try:
        ref = [alone(k) for k in range(3)]
    except Exception as e:
        v, why = _w2case.classify_exc(e, spec)
        return common.result(v, sig=sig, why=why, sample=sample)
    ntr = sum(1 for e in ins.EV if e["k"] == "trade")
    if ref[0] != ref[2]:
        return common.result(common.VIOL, sig=sig, nt=True, mech="c11_not_repeatable_in_process", witness=w, sample=sample)

    def inputs_ok(stage):
        common.bump(cnt, "input_digests", 1 + len(d_in))
        if template_digest(tpl) != d_tpl:
            return ("c11_template_mutated", dict(w, stage=stage))
        if frame_digest(data) != d_in["data"]:
            return ("c11_data_mutated", dict(w, stage=stage, frame="data"))
        for k, v in extras.items():
            if frame_digest(v) != d_in[k]:
                return ("c11_data_mutated", dict(w, stage=stage, frame=k))
        for a in _frames_in_algos(tpl):
            if frame_digest(a) != d_in.get("algo:%d" % id(a)):
                return ("c11_data_mutated", dict(w, stage=stage, frame="frame held by an algo"))
        return None

    bad = inputs_ok("after stand-alone constructions and runs")
    if bad:
        return common.result(common.VIOL, sig=sig, nt=True, cnt=cnt, mech=bad[0], witness=bad[1], sample=sample)
    try:
        for order in ([0, 1, 2], [2, 1, 0], [1, 0, 2]):
            bts = [mkbt(tpl, data, extras, k, "n%d" % k) for k in range(3)]
            bad = inputs_ok("after construction")
            if bad:
                return common.result(common.VIOL, sig=sig, nt=True, cnt=cnt, mech=bad[0], witness=bad[1], sample=sample)
            for k in order:
                seeded_run(bts[k], cs)
            got = [run_digest(b.strategy) for b in bts]
            common.bump(cnt, "orders_compared")
            if got != ref:
                return common.result(common.VIOL, sig=sig, nt=True, cnt=cnt, mech="c11_order_dependence", sample=sample,
                                     witness=dict(w, order=order, equal_to_alone=[a == b for a, b in zip(got, ref)]))
            bad = inputs_ok("after run")
            if bad:
                return common.result(common.VIOL, sig=sig, nt=True, cnt=cnt, mech=bad[0], witness=bad[1], sample=sample)
        a = mkbt(tpl, data, extras, 0, "a")
        b = mkbt(tpl, data, extras, 1, "b")
        seeded_run(b, cs)
        seeded_run(a, cs)
        c = mkbt(tpl, data, extras, 2, "c")
        seeded_run(c, cs)
        common.bump(cnt, "orders_compared")
        got = [run_digest(x.strategy) for x in (a, b, c)]
        if got != ref:
            return common.result(common.VIOL, sig=sig, nt=True, cnt=cnt, mech="c11_order_dependence", sample=sample,
                                 witness=dict(w, order="construct a, construct b, run b, run a, construct c, run c", equal_to_alone=[x == y for x, y in zip(got, ref)]))
        # has_run: a second run() re-runs nothing
        before = dict(CountSpy.N)
        da = run_digest(a.strategy)
        a.run()
        bt.run(a)
        common.bump(cnt, "rerun_checks")
        if CountSpy.N != before or run_digest(a.strategy) != da:
            return common.result(common.VIOL, sig=sig, nt=True, cnt=cnt, mech="c11_rerun", witness=w, sample=sample)
    except Exception as e:
        return common.result(common.VIOL, sig=sig, nt=True, cnt=cnt, mech="c11_shared_template_run_raises", sample=sample,
                             witness=dict(w, exception="%s: %s" % (type(e).__name__, str(e)[:160])))
    return common.result(common.HELD, sig=sig, nt=ntr >= 1, cnt=cnt, sample=sample)


def _frames_in_algos(strategy):
    out = []
    seen = set()

    def walk(o, depth=0):
        if id(o) in seen or depth > 6:
            return
        seen.add(id(o))
        if isinstance(o, (pd.DataFrame, pd.Series)):
            out.append(o)
            return
        if isinstance(o, (list, tuple)):
            for v in o:
                walk(v, depth + 1)
        elif isinstance(o, dict):
            for v in o.values():
                walk(v, depth + 1)
        elif isinstance(o, bt.core.Algo) or isinstance(o, bt.core.Node):
            for k, v in vars(o).items():
                if k in ("parent", "root"):
                    continue
                walk(v, depth + 1)

    walk(strategy)
    return out


# ---------------------------------------------------------------- hash-seed / process repeatability
def child_main(argv):
    """python -m vf.props.c11 <seed0> <n> <warmup 0|1>  -> JSON list of digests on the last stdout line"""
    import warnings

    warnings.filterwarnings("ignore")
    cs0, n, warm = int(argv[0]), int(argv[1]), int(argv[2])
    ins.install()
    if warm:
        for j in range(3):
            sp = w2.gen(cs0 + 977 + j)
            w2.run(sp)
        set(["warm", "up", str(cs0)])
    out = []
    for j in range(n):
        cs = cs0 + j
        spec = w2.gen(cs, solvers=False, closeroll=0.4, risk=0.2)
        ins.reset()
        r = w2.run(spec)
        if r.exc is not None:
            out.append("exc:%s" % type(r.exc).__name__)
        else:
            out.append(run_digest(r.root) + ":%d" % sum(1 for e in r.events if e["k"] == "trade"))
    sys.stdout.write("\nDIGESTS " + json.dumps(out) + "\n")


def case_hashseed(cs, build):
    cnt = {}
    env0 = dict(os.environ)
    runs = []
    configs = [("0", 0), ("1", 0), ("2", 1), ("random", 0)]
    for hs, warm in configs:
        env = dict(env0)
        env["PYTHONHASHSEED"] = hs
        p = subprocess.run([sys.executable, "-m", "vf.props.c11", str(cs), str(BATCH), str(warm)], env=env, stdout=subprocess.PIPE, stderr=subprocess.PIPE,
                           text=True, timeout=800)
        line = [ln for ln in p.stdout.splitlines() if ln.startswith("DIGESTS ")]
        if p.returncode != 0 or not line:
            return [common.result(common.INC, why="child process failed: %s" % (p.stderr or "")[-200:])]
        runs.append(json.loads(line[-1][8:]))
        common.bump(cnt, "hashseed_runs", BATCH)
    out = []
    held = 0
    sigs = []
    for j in range(BATCH):
        vals = [r[j] for r in runs]
        spec = w2.gen(cs + j, solvers=False, closeroll=0.4, risk=0.2)
        if vals[0].startswith("exc:"):
            if len(set(vals)) == 1:
                o = common.result(common.OOD, why="run raises (decided by C10)")
                out.append(o)
                continue
        common.bump(cnt, "hashseed_cases")
        if len(set(vals)) != 1:
            out.append(common.result(common.VIOL, sig=w2.signature(spec), nt=True, mech="c11_process_dependence",
                                     witness={"case_seed": cs + j, "desc": spec["desc"], "digests": dict(zip(["hashseed=%s warm=%d" % c for c in configs], vals))}))
        else:
            held += 1
            if not vals[0].endswith(":0"):
                sigs.append(w2.signature(spec))
    r = common.result(common.HELD, nt=True, cnt=cnt, sample={"batch_of": BATCH, "processes": ["PYTHONHASHSEED=%s warmup=%d" % c for c in configs]})
    r["n"] = held
    r["sigs"] = sigs
    out.append(r)
    return out


def run_case(unit, cs, idx, build, params):
    if unit == "hashseed":
        return case_hashseed(cs, build)
    return case_iso(cs)


if __name__ == "__main__":
    child_main(sys.argv[1:])
