"""C07 - per-node cash ledger; every trade booked exactly once to the security's own parent."""
from .. import mon1
from .. import mon2
from . import _w1case, _w2case

ID = "C07"
LEVEL = "exploration"
RULE = ("Per strategy node and date: dcash == received - own-security outlays - fees - capital passed to sub-strategies (recorded rows), "
        "fees/outlay rows == sums recomputed from the trade log, and each logged trade matched to exactly one non-flow adjust on the "
        "security's own parent with amount -(outlay+fee) and that fee. Non-trivial: >=1 trade and >=3 ops; distinct by case signature.")
ASSUMPTIONS = ["commission functions are harness-owned pure functions", "driver-issued adjustments on sub-strategies are external receipts of that node"]


def plan(tier):
    n = 1500 if tier == "quick" else 40000
    m = 400 if tier == "quick" else 10000
    return [dict(unit="w1", n=n, builds=["py", "so"], case_timeout=60), dict(unit="w2", n=m, builds=["py", "so"], case_timeout=120)]


def floors(tier):
    return {"min_decided": 300, "counters": {"ledger_evals": 3000, "trade_booking_evals": 1000, "fee_row_evals": 3000, "c07_ledger_evals": 10000, "c07_trade_booking_evals": 2000}, "max_undecided_frac": 0.4}


def run_case(unit, cs, idx, build, params):
    if unit == "w2":
        return _w2case.run_w2(cs, [mon2.c07_ledger])
    return _w1case.run_w1(cs, [mon1.Ledger()])
