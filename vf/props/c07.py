"""C07 - per-node cash ledger; every trade booked exactly once to the security's own parent."""
from .. import mon1
from .. import common, instrument as ins, mon2, w5
from . import _replay, _w1case, _w2case

ID = "C07"
LEVEL = "exploration"
RULE = ("Per strategy node and date: dcash == received - own-security outlays - fees - capital passed to sub-strategies (recorded rows), "
        "fees/outlay rows == sums recomputed from the trade log, and each logged trade matched to exactly one non-flow adjust on the "
        "security's own parent with amount -(outlay+fee) and that fee. Non-trivial: >=1 trade and >=3 ops; distinct by case signature.")
ASSUMPTIONS = ["commission functions are harness-owned pure functions", "driver-issued adjustments on sub-strategies are external receipts of that node"]


def plan(tier):
    n = 1500 if tier == "quick" else 16000
    m = 400 if tier == "quick" else 4000
    return [dict(unit="w1", n=n, builds=["py", "so"], case_timeout=60), dict(unit="w2", n=m, builds=["py", "so"], case_timeout=120),
            dict(unit="w5", n=m // 2, builds=["py", "so"], case_timeout=120),
            dict(unit="replay", n=m // 3, builds=["py", "so"], case_timeout=180)]


def floors(tier):
    return {"min_decided": 300, "counters": {"ledger_evals": 3000, "trade_booking_evals": 1000, "fee_row_evals": 3000, "c07_ledger_evals": 10000, "c07_trade_booking_evals": 2000, "swept_coupons": 500, "custom_price_trades": 1000}, "max_undecided_frac": 0.4}


def run_w5(cs):
    """fixed-income backtests: swept coupons enter the parent's cash on the next date, exactly once"""
    ins.reset()
    spec = w5.gen(cs)
    run = w5.run_backtest(spec)
    sig = w5.signature(spec)
    if run.exc is not None:
        if isinstance(run.exc, ZeroDivisionError) or common.is_guard_exc(run.exc):
            return common.result(common.OOD, sig=sig, why="zero notional / sizing guard")
        return common.result(common.INC, sig=sig, why="bt raised %s: %s" % (type(run.exc).__name__, str(run.exc)[:100]))
    cnt, res = {}, {}

    def swept(s, i):
        if i == 0:
            return 0.0
        tot = 0.0
        for c in s.children.values():
            if hasattr(c, "_coupon_income"):
                a = w5.accrual(spec, None, c, i - 1, c.data["position"].iloc[i - 1])
                if a != 0:
                    common.bump(cnt, "swept_coupons")
                tot += a
        return tot

    out = mon2.c07_ledger(run, cnt, res, swept=swept)
    ntr = sum(1 for e in run.events if e["k"] == "trade")
    common.bump(cnt, "trades", ntr)
    if out:
        return common.result(common.VIOL, sig=sig, nt=True, cnt=cnt, res=res, mech=out[0], witness=dict(out[1], case_seed=cs, fixed_income=True, kinds=spec["kinds"]))
    return common.result(common.HELD, sig=sig, nt=ntr >= 1, cnt=cnt, res=res, sample=w5.sample_of(spec))


def run_replay(cs):
    got, early = _replay.replay_run(cs)
    if early is not None:
        return early
    run, sig, spec = got
    cnt, res = {}, {}
    out = mon2.c07_ledger(run, cnt, res)
    ncp = sum(1 for e in run.events if e["k"] == "trade" and e["cp"] is not None)
    common.bump(cnt, "custom_price_trades", ncp)
    if out:
        return common.result(common.VIOL, sig=sig, nt=True, cnt=cnt, res=res, mech=out[0], witness=dict(out[1], case_seed=cs, replayed=True, desc=spec["desc"]))
    return common.result(common.HELD, sig=sig, nt=ncp >= 1, cnt=cnt, res=res, sample={"replayed_custom_price_trades": ncp, "desc": spec["desc"]})


def run_case(unit, cs, idx, build, params):
    if unit == "replay":
        return run_replay(cs)
    if unit == "w5":
        return run_w5(cs)
    if unit == "w2":
        return _w2case.run_w2(cs, [mon2.c07_ledger], gen_opts={"fills": 0.3})
    return _w1case.run_w1(cs, [mon1.Ledger()])
