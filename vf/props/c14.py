"""C14 - selection algos select exactly the documented, tradable set."""
import random
import re

import numpy as np
import pandas as pd

import bt
from bt import algos
from bt.core import CouponPayingSecurity, HedgeSecurity, Security, SecurityBase, Strategy, StrategyBase

from .. import common

ID = "C14"
LEVEL = "exploration"
RULE = ("W3: a real Strategy set up on a generated universe (late listings, NaN gaps, zero and negative prices, optional sub-strategy column; "
        "B/D/2D/W-FRI calendars) advanced to a random date with random prior temp['selected']; one selection algo with random parameters is "
        "invoked and temp['selected'] / temp['stat'] compared with an independent reference computed from the raw input frame truncated at now. "
        "Covers SelectAll, SelectThese, SelectHasData, SelectN, SelectMomentum/StatTotalReturn, SetStat, SelectWhere, SelectRandomly, SelectRegex, "
        "SelectTypes, SelectActive, ResolveOnTheRun. One evaluation = one algo call; distinct = (algo, flag pair, parameter class, calendar); "
        "non-trivial = the universe row contained at least one untradable ticker or the reference selection is a proper non-empty subset. "
        "Unit 'chain': stacks of 1-5 selection algos (SelectAll/SelectThese/SelectWhere first, then ResolveOnTheRun, SelectRegex, SelectHasData, SelectActive, "
        "SetStat+SelectN or SelectMomentum) whose SAME instances are called on 2-6 consecutive dates, as a backtest does; on every date the result must equal "
        "that of freshly built instances on a freshly built strategy at that date.")
ASSUMPTIONS = ["for (include_no_data=True, include_negative=False) the documentation does not settle the result: only 'contains every priced-positive candidate, "
               "inside the universe' is asserted", "ranked selection: any valid top-k set is accepted (ties may fall either way)"]

BATCH = 30
KINDS = ["all", "these", "hasdata", "stat", "momentum", "selectn", "where", "randomly", "setstat", "regex", "types", "active", "otr"]


def plan(tier):
    q = tier == "quick"
    return [dict(unit="w3", n=500 if q else 6000, builds=["py"], case_timeout=120),
            dict(unit="chain", n=100 if q else 1200, builds=["py"], case_timeout=120)]


def floors(tier):
    c = {"calls": 10000, "chain_runs": 2000, "chain_dates": 6000, "chain_otr": 300, "chain_these": 600, "chain_selectn": 200, "chain_momentum": 200, "chain_hasdata": 300}
    for k in KINDS:
        c["calls_" + k] = 300
    return {"min_decided": 8000, "counters": c, "max_undecided_frac": 0.2}


def mk(rng, rs, with_sub):
    nd = rng.randint(8, 40)
    n = rng.randint(2, 7)
    cols = ["t%d" % i for i in range(n)]
    freq = rng.choice(["B", "D", "2D", "W-FRI"])
    dts = pd.date_range("2020-01-10", periods=nd, freq=freq)
    px = 100 * np.exp(np.cumsum(rs.randn(nd, n) * 0.03, axis=0))
    data = pd.DataFrame(px, index=dts, columns=cols)
    dirty = False
    for c in cols:
        r = rng.random()
        if r < 0.3:
            data.loc[dts[: rng.randint(1, nd - 1)], c] = np.nan
            dirty = True
        elif r < 0.45:
            for k in rng.sample(range(nd), rng.randint(1, 4)):
                data.loc[dts[k], c] = np.nan
            dirty = True
        elif r < 0.55:
            data.loc[dts[rng.randint(0, nd - 1)]:, c] = 0.0
            dirty = True
        elif r < 0.6:
            data.loc[dts[rng.randint(0, nd - 1)], c] = -5.0
            dirty = True
    i = rng.randint(0, nd - 1)
    if with_sub:
        sub = Strategy("sub", [], children=[cols[0]])
        s = Strategy("s", [], children=list(cols) + [sub])
    else:
        s = Strategy("s", [], children=(list(cols) if rng.random() < 0.5 else None))
    return data, s, dts, i, cols, freq, dirty


def tradable(row, names, neg):
    out = []
    for c in names:
        v = row[c]
        if v != v:
            continue
        if v <= 0 and not neg:
            continue
        out.append(c)
    return out


def flag_check(got, exp_strict, pool, row, nd_, ng):
    """tradability clause for the algos that document the two flags"""
    if nd_ and not ng:
        must = set(tradable(row, pool, False))
        return must <= set(got) <= set(pool), {"must_contain": sorted(must), "pool": list(pool)}
    return (set(got) == set(exp_strict) and len(got) == len(exp_strict)), {"expected": list(exp_strict)}


def topk_ok(got, cand, k, desc, aon):
    kk = min(k, len(cand))
    gs = set(got)
    rest = [c for c in cand.index if c not in gs]
    if aon and len(cand) < k:
        return got == []
    return len(got) == kk and len(gs) == kk and gs <= set(cand.index) and all((cand[a] >= cand[b]) if desc else (cand[a] <= cand[b]) for a in gs for b in rest)


def one(cs, j):
    rng = random.Random(cs * 1000 + j)
    rs = np.random.RandomState((cs * 1000 + j) % (2 ** 32))
    which = rng.choice(KINDS)
    with_sub = rng.random() < 0.2 and which in ("all", "these", "hasdata", "randomly", "where")
    data, s, dts, i, cols, freq, dirty = mk(rng, rs, with_sub)
    now = dts[i]
    extra = {}
    sig_df = None
    if which == "otr":
        otr = pd.DataFrame({"OTR_A": [rng.choice(cols) for _ in dts], "OTR_B": [rng.choice(cols) for _ in dts]}, index=dts)
        extra["otr"] = otr
    if which == "types":
        kinds = []
        kids = []
        for c in cols:
            k = rng.choice(["sec", "cps", "hedge"])
            kinds.append(k)
            kids.append({"sec": Security, "cps": CouponPayingSecurity, "hedge": HedgeSecurity}[k](c))
        kids.append(Strategy("sub", [], children=[cols[0]]))
        s = Strategy("s", [], children=kids)
        extra["coupons"] = pd.DataFrame(0.0, index=dts, columns=cols)
        data = data.abs().fillna(50.0) + 1.0
    s.setup(data, **extra)
    s.update(now)
    row = data.loc[now].copy()
    ucols = list(cols)
    if with_sub:
        row["sub"] = 100.0
        ucols = list(cols) + ["sub"]
    prior = rng.choice([None, rng.sample(ucols, rng.randint(1, len(ucols)))])
    s.temp = {}
    if prior is not None and which in ("hasdata", "randomly", "stat", "momentum", "selectn"):
        s.temp["selected"] = list(prior)
    nd_ = rng.random() < 0.25
    ng = rng.random() < 0.25
    lb = pd.DateOffset(days=rng.choice([3, 7, 14, 30]))
    lag = pd.DateOffset(days=rng.choice([0, 0, 1, 2, 7]))
    sig = [which, nd_, ng, freq, with_sub]
    w = {"algo": which, "include_no_data": nd_, "include_negative": ng, "now": str(now), "row": {k: (None if v != v else float(v)) for k, v in row.items()}, "prior": prior}
    hist = data.loc[:now]
    nt = dirty
    detail = None
    try:
        if which == "all":
            algos.SelectAll(nd_, ng)(s)
            got = list(s.temp["selected"])
            ok, detail = flag_check(got, ucols if nd_ else tradable(row, ucols, ng), ucols, row, nd_, ng)
        elif which == "these":
            tk = rng.sample(ucols, rng.randint(1, len(ucols)))
            w["tickers"] = tk
            algos.SelectThese(tk, nd_, ng)(s)
            got = list(s.temp["selected"])
            ok, detail = flag_check(got, tk if nd_ else tradable(row, tk, ng), tk, row, nd_, ng)
        elif which == "hasdata":
            mc = rng.randint(1, 6)
            w.update(min_count=mc, lookback=str(lb))
            algos.SelectHasData(lb, mc, nd_, ng)(s)
            got = list(s.temp["selected"])
            base = prior if prior is not None else ucols
            win = hist.loc[hist.index >= now - lb]
            cntv = {c: (int(win[c].count()) if c in win.columns else int(((s.universe[c].loc[now - lb:]).count()))) for c in base}
            exp = [c for c in base if cntv[c] >= mc]
            if nd_:
                ok = set(got) == set(exp) and len(got) == len(exp)
                detail = {"expected": exp, "counts": cntv}
            else:
                ok, detail = flag_check(got, tradable(row, exp, ng), exp, row, False, ng)
                detail["counts"] = cntv
        elif which in ("stat", "momentum"):
            pool = [c for c in (prior if prior is not None else cols) if c in cols]
            if not pool:
                return None
            s.temp["selected"] = list(pool)
            t0 = now - lag
            w.update(lookback=str(lb), lag=str(lag), selected=pool)
            if which == "stat":
                r = algos.StatTotalReturn(lb, lag)(s)
            else:
                n = rng.randint(1, len(cols))
                desc = rng.random() < 0.7
                aon = rng.random() < 0.3
                w.update(n=n, descending=desc, all_or_none=aon)
                r = algos.SelectMomentum(n, lb, lag, desc, aon)(s)
            if data.index[0] > t0:
                ok = not r
                detail = {"expected": "False: data starts after now - lag"}
                got = None
            else:
                win = data.loc[(data.index >= t0 - lb) & (data.index <= t0), pool]
                if len(win) == 0:
                    return "ood"
                st = win.iloc[-1] / win.iloc[0] - 1
                if which == "stat":
                    got = s.temp["stat"]
                    ok = bool(r) and list(got.index) == list(st.index) and np.allclose(got.values.astype(float), st.values.astype(float), equal_nan=True, rtol=1e-12, atol=0)
                    detail = {"expected": st.to_dict(), "got": got.to_dict()}
                    got = None
                else:
                    cand = st.dropna()
                    got = list(s.temp["selected"])
                    ok = bool(r) and topk_ok(got, cand, n, desc, aon)
                    detail = {"stat": cand.to_dict()}
                    nt = nt or 0 < len(got) < len(pool)
        elif which == "selectn":
            st = pd.Series(rs.randn(len(cols)).round(1), index=cols)
            for c in rng.sample(cols, rng.randint(0, 2)):
                st[c] = np.nan
            s.temp["stat"] = st.copy()
            n = rng.choice([1, 2, 3, 0.5, 0.34, 0.9])
            desc = rng.random() < 0.5
            aon = rng.random() < 0.3
            fs = rng.random() < 0.5
            w.update(n=n, descending=desc, all_or_none=aon, filter_selected=fs, stat=st.to_dict())
            algos.SelectN(n, desc, aon, fs)(s)
            got = list(s.temp["selected"])
            cand = st.dropna()
            if fs and prior is not None:
                cand = cand[[c for c in cand.index if c in prior]]
            k = n if n >= 1 else int(n * len(cand))
            ok = topk_ok(got, cand, k, desc, aon)
            detail = {"candidates": cand.to_dict(), "k": k}
            nt = True
        elif which == "where":
            sigf = pd.DataFrame(rs.rand(len(data), len(ucols)) > 0.5, index=data.index, columns=ucols)
            if rng.random() < 0.3:
                sigf = sigf.iloc[::2]
            shape = rng.choice(["bool", "bool", "lagged", "masked", "flags"])
            if shape == "lagged":
                sigf = sigf.shift(1)                                # yesterday's signal: the first row is all missing
            elif shape == "masked":
                sigf = sigf.astype(object).where(rs.rand(*sigf.shape) > 0.3, np.nan)    # no signal for some (ticker, date) cells
            elif shape == "flags":
                sigf = sigf.astype(float).where(rs.rand(*sigf.shape) > 0.3, np.nan)     # 0/1 flags with gaps
            w["signal_shape"] = shape
            byname = rng.random() < 0.5
            s.temp["selected"] = ["zz"]
            if byname:
                s._setup_kwargs["sigf"] = sigf
            algos.SelectWhere("sigf" if byname else sigf, nd_, ng)(s)
            got = list(s.temp["selected"])
            if now in sigf.index:
                tr = [c for c in ucols if bool(sigf.loc[now, c] == True)]      # noqa: E712  a missing signal is not True
                ok, detail = flag_check(got, tr if nd_ else tradable(row, tr, ng), tr, row, nd_, ng)
            else:
                ok = got == ["zz"]
                detail = {"expected": "selection untouched: now not in the signal index"}
        elif which == "randomly":
            n = rng.choice([None, 1, 2, 3, 10])
            w["n"] = n
            random.seed(cs + j)
            algos.SelectRandomly(n, nd_, ng)(s)
            got = list(s.temp["selected"])
            base = prior if prior is not None else ucols
            pool = list(base) if nd_ else tradable(row, base, ng)
            if nd_ and not ng:
                pool_min = tradable(row, base, False)
                k = None
                ok = set(got) <= set(base) and len(set(got)) == len(got) and (n is None or len(got) <= n)
            else:
                k = len(pool) if n is None else min(n, len(pool))
                ok = len(got) == k and len(set(got)) == k and set(got) <= set(pool)
            # reproducible under a fixed seed
            s.temp = {} if prior is None else {"selected": list(prior)}
            random.seed(cs + j)
            algos.SelectRandomly(n, nd_, ng)(s)
            ok = ok and list(s.temp["selected"]) == got
            detail = {"pool": pool, "k": k}
        elif which == "setstat":
            stf = pd.DataFrame(rs.randn(len(data), len(cols)).round(3), index=data.index, columns=cols)
            if rng.random() < 0.3:
                stf = stf.iloc[::2]
            byname = rng.random() < 0.5
            if byname:
                s._setup_kwargs["stf"] = stf
            s.temp["stat"] = "untouched"
            r = algos.SetStat("stf" if byname else stf, lag)(s)
            t0 = now - lag
            w["lag"] = str(lag)
            got = None
            if t0 in stf.index:
                ok = bool(r) and s.temp["stat"].equals(stf.loc[t0])
                detail = {"expected_row": str(t0)}
            else:
                ok = (not r) and isinstance(s.temp["stat"], str)
                detail = {"expected": "False, stat untouched: now - lag not in the frame"}
        elif which == "regex":
            pat = rng.choice(["[02468]$", "^t[0-3]$", "t1|t5", "x", "t"])
            pool = rng.sample(ucols, rng.randint(0, len(ucols)))
            s.temp["selected"] = list(pool)
            algos.SelectRegex(pat)(s)
            got = list(s.temp["selected"])
            exp = [c for c in pool if re.search(pat, c)]
            ok = got == exp
            detail = {"expected": exp, "pattern": pat}
            nt = 0 < len(exp) < len(pool)
        elif which == "types":
            tmap = {"sec": Security, "cps": CouponPayingSecurity, "hedge": HedgeSecurity, "strat": StrategyBase, "secbase": SecurityBase}
            inc = tuple(tmap[k] for k in rng.sample(list(tmap), rng.randint(1, 3)))
            exc = tuple(tmap[k] for k in rng.sample(list(tmap), rng.randint(0, 2)))
            pool = rng.choice([None, rng.sample(cols + ["sub"], rng.randint(1, len(cols)))])
            if pool is not None:
                s.temp["selected"] = list(pool)
            algos.SelectTypes(inc, exc)(s)
            got = list(s.temp["selected"])
            exp = [nme for nme, c in s.children.items() if isinstance(c, inc) and not (exc and isinstance(c, exc)) and (pool is None or nme in pool)]
            ok = got == exp
            detail = {"expected": exp, "include": [t.__name__ for t in inc], "exclude": [t.__name__ for t in exc]}
            nt = 0 < len(exp) < len(s.children)
        elif which == "active":
            pool = rng.sample(cols, rng.randint(1, len(cols)))
            s.temp["selected"] = list(pool)
            closed = set(rng.sample(cols, rng.randint(0, len(cols))))
            rolled = set(rng.sample(cols, rng.randint(0, 2)))
            mode = rng.choice(["both", "closed", "rolled", "none"])
            if mode in ("both", "closed"):
                s.perm["closed"] = set(closed)
            if mode in ("both", "rolled"):
                s.perm["rolled"] = set(rolled)
            algos.SelectActive()(s)
            got = list(s.temp["selected"])
            gone = (closed if mode in ("both", "closed") else set()) | (rolled if mode in ("both", "rolled") else set())
            exp = [c for c in pool if c not in gone]
            ok = got == exp
            detail = {"expected": exp, "closed": sorted(closed), "rolled": sorted(rolled), "mode": mode}
            nt = 0 < len(exp) < len(pool)
        else:  # otr
            pool = rng.sample(["OTR_A", "OTR_B"] + cols, rng.randint(1, 4))
            s.temp["selected"] = list(pool)
            algos.ResolveOnTheRun("otr", nd_, ng)(s)
            got = list(s.temp["selected"])
            res = [extra["otr"].loc[now, a] for a in pool if a in ("OTR_A", "OTR_B")]
            others = [c for c in pool if c not in ("OTR_A", "OTR_B")]
            if nd_ and not ng:
                must = set(tradable(row, res, False)) | set(others)
                ok = must <= set(got) <= set(res) | set(others)
                detail = {"must_contain": sorted(must)}
            else:
                keep = res if nd_ else [c for c in dict.fromkeys(res) if c in tradable(row, [c], ng)]
                ok = set(got) == set(keep) | set(others) and set(got) <= set(cols)
                detail = {"expected": sorted(set(keep) | set(others)), "resolved": res}
    except IndexError as e:
        if which in ("stat", "momentum"):
            return "ood"
        return (sig, "c14_raises", dict(w, exception="IndexError: %s" % str(e)[:100]), nt)
    except Exception as e:
        return (sig, "c14_raises", dict(w, exception="%s: %s" % (type(e).__name__, str(e)[:100])), nt)
    if got is not None:
        uni = set(s.universe.columns) | set(s.children.keys())
        if not set(got) <= uni and which not in ("where",) and got != ["zz"]:
            return (sig, "c14_outside_universe", dict(w, selected=got), nt)
        nt = nt or (0 < len(got) < len(ucols))
    if not ok:
        return (sig, "c14_" + which, dict(w, selected=got, **(detail or {})), nt)
    return (sig, None, w, nt)


def _inst(spec):
    """a fresh instance of one chain element (constructor arguments are fresh copies)"""
    k = spec[0]
    if k == "all":
        return algos.SelectAll(spec[1], spec[2])
    if k == "these":
        return algos.SelectThese(list(spec[1]), spec[2], spec[3])
    if k == "where":
        return algos.SelectWhere("sig", spec[1], spec[2])
    if k == "regex":
        return algos.SelectRegex(spec[1])
    if k == "hasdata":
        return algos.SelectHasData(pd.DateOffset(days=spec[1]), spec[2], spec[3], spec[4])
    if k == "otr":
        return algos.ResolveOnTheRun("otr", spec[1], spec[2])
    if k == "setstat":
        return algos.SetStat("stat")
    if k == "selectn":
        return algos.SelectN(spec[1], spec[2], spec[3], True)
    if k == "momentum":
        return algos.SelectMomentum(spec[1], pd.DateOffset(days=spec[2]), pd.DateOffset(days=spec[3]))
    if k == "active":
        return algos.SelectActive()
    raise KeyError(k)


def _run_chain(s, insts):
    s.temp = {}
    try:
        for a in insts:
            if not a(s):
                return ("stopped", type(a).__name__, list(s.temp.get("selected", [])))
    except Exception as e:
        return ("raised", type(e).__name__)
    return ("ok", list(s.temp.get("selected", [])))


def chain(cs, j):
    """Documented stacks of selection algos driven the way a backtest drives them - the SAME instances called on consecutive dates - must leave
    on every date what freshly built instances leave on a freshly built strategy at that date (the documented set is a function of the
    arguments, the data up to now and the closed/rolled marks; nothing may leak from one date's call into the next)."""
    rng = random.Random(cs * 7919 + j)
    rs = np.random.RandomState((cs * 7919 + j) % (2 ** 32))
    data, _, dts, i, cols, freq, dirty = mk(rng, rs, False)
    nd = len(dts)
    aliases = ["OTR_A", "OTR_B"]
    extra = {"otr": pd.DataFrame({a: [rng.choice(cols) for _ in dts] for a in aliases}, index=dts),
             "sig": pd.DataFrame(rs.rand(nd, len(cols)) > 0.4, index=dts, columns=cols),
             "stat": pd.DataFrame(rs.randn(nd, len(cols)), index=dts, columns=cols)}
    flags = lambda: (rng.random() < 0.3, rng.random() < 0.25)
    first = rng.choice(["all", "these", "these", "where"])
    use_otr = first == "these" and rng.random() < 0.5
    specs = []
    if first == "all":
        specs.append(("all",) + flags())
    elif first == "where":
        specs.append(("where",) + flags())
    else:
        tk = rng.sample(cols, rng.randint(1, len(cols)))
        if use_otr:
            tk = rng.sample(aliases, rng.randint(1, 2)) + tk
            rng.shuffle(tk)
            specs.append(("these", tk, True, False))
        else:
            specs.append(("these", tk) + flags())
    if use_otr:
        specs.append(("otr",) + flags())
    for _ in range(rng.randint(0, 2)):
        k = rng.choice(["regex", "hasdata", "active"])
        if k == "regex":
            specs.append(("regex", rng.choice(["t[0-2]", "t[1-4]", "t", "^t[35]$"])))
        elif k == "hasdata":
            specs.append(("hasdata", rng.choice([3, 7, 14]), rng.randint(1, 3)) + flags())
        else:
            specs.append(("active",))
    r = rng.random()
    if r < 0.3:
        specs += [("setstat",), ("selectn", rng.randint(1, 4), rng.random() < 0.5, rng.random() < 0.2)]
    elif r < 0.5:
        specs.append(("momentum", rng.randint(1, 4), rng.choice([3, 7, 14]), rng.choice([0, 1, 2])))
    closed = set(rng.sample(cols, rng.randint(0, 2)))

    def mk_strategy():
        st = Strategy("s", [], children=list(cols))
        st.setup(data, **extra)
        st.perm["closed"] = set(closed)
        return st

    A = mk_strategy()
    insts = [_inst(sp) for sp in specs]
    i0 = rng.randint(0, max(0, nd - 4))
    k = rng.randint(2, min(6, nd - i0))
    sig = ["chain", specs[0][0], tuple(sp[0] for sp in specs[1:]), freq]
    w = {"chain": [list(map(str, sp)) for sp in specs], "freq": freq, "first_row": i0, "dates": k}
    nt = False
    for d in range(i0, i0 + k):
        A.update(dts[d])
        got = _run_chain(A, insts)
        B = mk_strategy()
        B.update(dts[d])
        exp = _run_chain(B, [_inst(sp) for sp in specs])
        if got[0] == "ok" and 0 < len(got[1]) < len(cols):
            nt = True
        if got != exp:
            return (sig, "c14_chain_depends_on_earlier_calls", dict(w, date=str(dts[d]), call_number=d - i0 + 1, same_instances=list(got), fresh_instances=list(exp)), True, k)
    return (sig, None, w, nt, k)


def run_chain_case(cs):
    cnt = {}
    out = []
    sigs = set()
    held = 0
    sample = None
    for j in range(BATCH):
        sig, mech, w, nt, k = chain(cs, j)
        common.bump(cnt, "chain_runs")
        common.bump(cnt, "chain_dates", k)
        for a in [sig[1]] + list(sig[2]):
            common.bump(cnt, "chain_" + a)
        if mech:
            out.append(common.result(common.VIOL, sig=[str(x) for x in sig], nt=True, mech=mech, witness=dict(w, case_seed=cs, sub_index=j)))
        else:
            held += 1
            if nt:
                sigs.add(repr(sig))
                sample = sample or w
    r = common.result(common.HELD, nt=True, cnt=cnt, sample=sample or {"batch": BATCH})
    r["n"] = held
    r["sigs"] = [[s_] for s_ in sigs]
    out.append(r)
    return out


def run_case(unit, cs, idx, build, params):
    if unit == "chain":
        return run_chain_case(cs)
    cnt = {}
    out = []
    held = 0
    sigs = set()
    ood = 0
    sample = None
    for j in range(BATCH):
        r = one(cs, j)
        if r is None:
            continue
        if r == "ood":
            ood += 1
            continue
        sig, mech, w, nt = r
        common.bump(cnt, "calls")
        common.bump(cnt, "calls_" + sig[0])
        if mech:
            out.append(common.result(common.VIOL, sig=sig, nt=True, mech=mech, witness=dict(w, case_seed=cs, sub_index=j)))
        else:
            held += 1
            if nt:
                sigs.add(tuple(sig))
            if sample is None and nt:
                sample = w
    r = common.result(common.HELD, nt=True, cnt=cnt, sample=sample or {"batch": BATCH})
    r["n"] = held
    r["sigs"] = [list(s_) for s_ in sigs]
    out.append(r)
    if ood:
        o = common.result(common.OOD, why="empty lookback window (IndexError in StatTotalReturn)")
        o["n"] = ood
        out.append(o)
    return out
