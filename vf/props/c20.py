"""C20 - risk sums over the tree, hedges neutralise it, matured positions close and roll once."""
import random

import numpy as np
import pandas as pd

import bt
from bt import algos
from bt.core import FixedIncomeSecurity, FixedIncomeStrategy, Security, SecurityBase, Strategy, StrategyBase

from .. import common, instrument as ins, mon2, w2
from . import _w2case

ID = "C20"
LEVEL = "exploration"
RULE = ("Unit 'risk': random 1-3 level trees with multipliers, random positions, unit_risk tables with missing securities; after UpdateRisk every "
        "security risk == unit risk x position x multiplier (0 if flat/missing), every strategy == sum of children, risks frames exist exactly to "
        "depth `history` with row now filled. Unit 'hedge': after UpdateRisk, HedgeRisks(k measures, k independent instruments) the strategy's risk "
        "in every hedged measure is 0; with pseudo=True and more/fewer instruments the residual equals numpy's least-squares minimum. Units "
        "'close'/'roll': stacks with ClosePositionsAfterDates / RollPositionsAfterDates (optionally run_always) + SelectAll, SelectActive, weigh, "
        "Rebalance through real Backtests (market-value and fixed-income): post-condition at the exit of every call, persistence via SelectActive, "
        "exactly-once roll into the target at the conversion factor (trade log). Distinct = (unit, shape, parameters); non-trivial = a non-zero "
        "risk / an executed hedge / a close or roll that actually happened.")
ASSUMPTIONS = ["'leaves no position' is the post-condition at the exit of the closing call plus SelectActive exclusion; a security never held is only marked when it first appears",
               "zero-priced securities are excluded (bt documents that it does not close them)"]


def plan(tier):
    q = tier == "quick"
    return [dict(unit="risk", n=400 if q else 4800, builds=["py"], case_timeout=60),
            dict(unit="hedge", n=500 if q else 6000, builds=["py"], case_timeout=60),
            dict(unit="risk_bt", n=120 if q else 1200, builds=["py", "so"], case_timeout=180),
            dict(unit="close", n=300 if q else 3200, builds=["py", "so"], case_timeout=120),
            dict(unit="roll", n=300 if q else 3200, builds=["py", "so"], case_timeout=120)]


def floors(tier):
    return {"min_decided": 1200, "counters": {"risk_evals": 5000, "history_evals": 1000, "hedges_exact": 150, "hedges_pseudo": 100, "close_calls": 2000,
                                              "closes_done": 200, "rolls_done": 150, "select_active_evals": 1500, "risk_bt_evals": 3000, "pretrades": 300, "hedges_with_lazy_nonunit_instrument": 30}, "max_undecided_frac": 0.3}


def mk_tree(rng, names, mults):
    shape = rng.choice(["flat", "nested", "deep"])
    lazy = {nm: rng.random() < 0.3 for nm in names}     # declared lazily: not in the tree until first traded (e.g. by the hedge itself)
    sec = lambda nm: Security(nm, multiplier=mults[nm], lazy_add=lazy[nm])
    if shape == "flat" or len(names) < 3:
        return Strategy("r", [], children=[sec(nm) for nm in names]), "flat"
    if shape == "nested":
        sub = Strategy("sub", [], children=[sec(nm) for nm in names[:2]])
        return Strategy("r", [], children=[sub] + [sec(nm) for nm in names[2:]]), shape
    g = Strategy("g", [], children=[sec(names[0])])
    sub = Strategy("sub", [], children=[g, sec(names[1])])
    return Strategy("r", [], children=[sub] + [sec(nm) for nm in names[2:]]), shape


def setup_risk_case(cs):
    rng = random.Random(cs)
    rs = np.random.RandomState(cs % (2 ** 32))
    nd = rng.randint(6, 15)
    n = rng.randint(3, 6)
    names = ["b%d" % i for i in range(n)]
    dts = pd.date_range("2020-01-01", periods=nd, freq="B")
    data = pd.DataFrame(100 * np.exp(np.cumsum(rs.randn(nd, n) * 0.01, axis=0)), index=dts, columns=names)
    measures = ["M%d" % i for i in range(rng.randint(1, 3))]
    ur = {m: pd.DataFrame(rs.randn(nd, n), index=dts, columns=names).drop(columns=rng.sample(names, rng.randint(0, 1))) for m in measures}
    mults = {nm: rng.choice([1, 1, 1, 2, 0.5]) for nm in names}
    root, shape = mk_tree(rng, names, mults)
    root.use_integer_positions(False)
    root.setup(data, unit_risk=ur)
    root.update(dts[0])
    root.adjust(1e6)
    root.update(dts[0])
    for s in [m for m in root.members if isinstance(m, StrategyBase) and m is not root]:
        s.parent.allocate(1e5, child=s.name)
    root.update(dts[0])
    i = rng.randint(0, nd - 1)
    for d in dts[: i + 1]:
        root.update(d)
        for s in [m for m in root.members if isinstance(m, StrategyBase)]:
            for c in s.children.values():
                if isinstance(c, SecurityBase) and rng.random() < 0.5:
                    c.transact(rng.uniform(-100, 200))
    root.update(dts[i])
    return rng, rs, root, names, dts, data, measures, ur, mults, shape


def exp_risk(node, m, ur, now):
    if isinstance(node, SecurityBase):
        if node.name in ur[m].columns and node.position != 0:
            return ur[m].loc[now, node.name] * node.position * node.multiplier
        return 0.0
    return sum(exp_risk(c, m, ur, now) for c in node.children.values())


def case_risk(cs, hedge):
    ins.install()
    rng, rs, root, names, dts, data, measures, ur, mults, shape = setup_risk_case(cs)
    hist = rng.randint(0, 3)
    for m in measures:
        algos.UpdateRisk(m, history=hist)(root)
    now = root.now
    cnt = {}
    sig = ["hedge" if hedge else "risk", shape, len(measures), hist]
    w = {"case_seed": cs, "shape": shape, "measures": measures, "history": hist, "multipliers": mults}
    nontriv = False
    depth = {id(root): 0}
    for node in root.members:
        for c in node.children.values():
            depth[id(c)] = depth[id(node)] + 1
    for node in root.members:
        for m in measures:
            e = exp_risk(node, m, ur, now)
            common.bump(cnt, "risk_evals")
            if e != 0:
                nontriv = True
            if not abs(node.risk[m] - e) <= 1e-9 * (1 + abs(e)):
                return common.result(common.VIOL, sig=sig, nt=True, cnt=cnt, mech="c20_risk", witness=dict(w, node=node.full_name, measure=m, risk=node.risk[m], expected=e,
                                                                                                       is_security=isinstance(node, SecurityBase)))
        has = hasattr(node, "risks")
        common.bump(cnt, "history_evals")
        if has != (depth[id(node)] < hist):
            return common.result(common.VIOL, sig=sig, nt=True, cnt=cnt, mech="c20_history_depth", witness=dict(w, node=node.full_name, depth=depth[id(node)], has_history=has))
        if has:
            for m in measures:
                v = node.risks.loc[now, m]
                if not abs(v - node.risk[m]) <= 1e-12 * (1 + abs(v)):
                    return common.result(common.VIOL, sig=sig, nt=True, cnt=cnt, mech="c20_history_row", witness=dict(w, node=node.full_name, measure=m, row=v, risk=node.risk[m]))
    if not hedge:
        # a second call on a later date keeps earlier history rows and fills the new one
        return common.result(common.HELD, sig=sig, nt=nontriv, cnt=cnt, sample=w)
    k = len(measures)
    declared = dict(root.children)
    declared.update(getattr(root, "_lazy_children", {}))
    pool = [c.name for c in declared.values() if isinstance(c, SecurityBase) and all(c.name in ur[m].columns for m in measures)]
    mode = rng.choice(["exact", "exact", "over", "under"])
    want = k if mode == "exact" else (k + 1 if mode == "under" else max(1, k - 1))
    if mode == "over" and k == 1:
        mode, want = "exact", 1
    if len(pool) < want:
        return common.result(common.OOD, sig=sig, why="not enough instruments with unit risk at the root")
    sel = rng.sample(pool, want)
    root.temp = {"selected": sel}
    J = np.array([[ur[m].loc[now, s] * mults[s] for m in measures] for s in sel])   # true sensitivity of each instrument per unit notional
    R = np.array([exp_risk(root, m, ur, now) for m in measures])
    if mode == "exact" and abs(np.linalg.det(np.array([[ur[m].loc[now, s] for m in measures] for s in sel]))) < 1e-6:
        return common.result(common.OOD, sig=sig, why="near-singular Jacobian")
    mark = len(ins.EV)
    lazy_sel = [s_ for s_ in sel if s_ not in root.children]
    try:
        algos.HedgeRisks(measures, pseudo=(mode != "exact"))(root)
    except np.linalg.LinAlgError:
        return common.result(common.OOD, sig=sig, why="singular Jacobian")
    except Exception as e:
        return common.result(common.VIOL, sig=sig, nt=True, cnt=cnt, mech="c20_hedge_raises", witness=dict(w, selected=sel, mode=mode, exception="%s: %s" % (type(e).__name__, str(e)[:160])))
    common.bump(cnt, "hedges_with_lazy_instrument", 1 if lazy_sel else 0)
    if any(mults[s_] != 1 for s_ in lazy_sel):
        common.bump(cnt, "hedges_with_lazy_nonunit_instrument")
    for m in measures:
        algos.UpdateRisk(m)(root)
    gross = sum(abs(exp_risk(s_, m, ur, now)) for s_ in root.members if isinstance(s_, SecurityBase) for m in measures) + np.abs(R).sum()
    after = np.array([root.risk[m] for m in measures])
    # cross-check UpdateRisk itself once more
    for j, m in enumerate(measures):
        e = exp_risk(root, m, ur, now)
        if not abs(after[j] - e) <= 1e-9 * (1 + abs(e) + gross):
            return common.result(common.VIOL, sig=sig, nt=True, cnt=cnt, mech="c20_risk", witness=dict(w, node="r", measure=m, risk=after[j], expected=e, after="HedgeRisks"))
    w.update(instruments={s: mults[s] for s in sel}, mode=mode, risk_before=R.tolist(), risk_after=after.tolist())
    nonunit = any(mults[s] != 1 for s in sel)
    sig = sig + [mode]
    if mode in ("exact", "under"):
        common.bump(cnt, "hedges_exact" if mode == "exact" else "hedges_pseudo")
        if not np.all(np.abs(after) <= 1e-8 * (1 + gross)):
            return common.result(common.VIOL, sig=sig, nt=True, cnt=cnt, mech="k7_hedge_ignores_multiplier" if nonunit else "c20_hedge_residual", witness=w)
    else:
        common.bump(cnt, "hedges_pseudo")
        # fewer instruments than measures: the residual must be the least-squares minimum
        q, *_ = np.linalg.lstsq(J.T, -R, rcond=None)
        best = R + J.T @ q
        if not abs(np.linalg.norm(after) - np.linalg.norm(best)) <= 1e-8 * (1 + gross):
            return common.result(common.VIOL, sig=sig, nt=True, cnt=cnt, mech="k7_hedge_ignores_multiplier" if nonunit else "c20_hedge_not_least_squares",
                                 witness=dict(w, least_squares_residual=best.tolist()))
    ntr = sum(1 for e in ins.EV[mark:] if e["k"] == "trade")
    return common.result(common.HELD, sig=sig, nt=ntr > 0, cnt=cnt, sample=w)


class CloseCtx(object):
    """spies around the close/roll algo and after SelectActive (shared through bt's deep copies)"""

    def __init__(self):
        self.viol = None
        self.cnt = {}
        self.real = None
        self.marked = {}     # name -> date on which it entered perm['closed'] / perm['rolled']

    def __deepcopy__(self, memo):
        return self


class Wrapped(bt.Algo):
    def __init__(self, algo, ctx, kind, table):
        super(Wrapped, self).__init__()
        self.algo = algo
        self.ctx = ctx
        self.kind = kind
        self.table = table
        if hasattr(algo, "run_always"):
            self.run_always = algo.run_always

    def __call__(self, target):
        ctx = self.ctx
        now = target.now
        before = {n: c.position for n, c in target.children.items() if isinstance(c, SecurityBase)}
        done_before = set(target.perm.get("closed" if self.kind == "close" else "rolled", set()))
        mark = len(ins.EV)
        r = self.algo(target)
        common.bump(ctx.cnt, "close_calls")
        if ctx.viol is not None:
            return r
        key = "closed" if self.kind == "close" else "rolled"
        done = target.perm.get(key, set())
        for nme in done:
            ctx.marked.setdefault(nme, now)
        tab = self.table
        trades = {}
        for e in ins.EV[mark:]:
            if e["k"] == "trade" and e["parent"] is target:
                trades[e["sec"].name] = trades.get(e["sec"].name, 0.0) + (e["pos1"] - e["pos0"])
        if self.kind == "close":
            for n, c in target.children.items():
                if isinstance(c, SecurityBase) and n in tab.index and tab.loc[n, "date"] <= now:
                    if c.price == 0:
                        continue
                    if c.position != 0 or n not in done:
                        ctx.viol = ("c20_close_postcondition", {"security": n, "now": str(now), "close_date": str(tab.loc[n, "date"]), "position": c.position, "in_perm_closed": n in done})
                        return r
                    if before.get(n, 0.0) != 0:
                        common.bump(ctx.cnt, "closes_done")
            for n in trades:
                if not (n in tab.index and tab.loc[n, "date"] <= now):
                    ctx.viol = ("c20_close_traded_other", {"security": n, "now": str(now), "quantity": trades[n]})
                    return r
        else:
            new = set(done) - done_before
            exp = {}
            for n in new:
                if not (tab.loc[n, "date"] <= now):
                    ctx.viol = ("c20_roll_too_early", {"security": n, "now": str(now), "roll_date": str(tab.loc[n, "date"])})
                    return r
                old = before.get(n, 0.0)
                exp[n] = exp.get(n, 0.0) - old
                tg = tab.loc[n, "target"]
                exp[tg] = exp.get(tg, 0.0) + tab.loc[n, "factor"] * old
                if old != 0:
                    common.bump(ctx.cnt, "rolls_done")
            for n, c in target.children.items():
                if isinstance(c, SecurityBase) and n in tab.index and tab.loc[n, "date"] <= now and n not in done:
                    ctx.viol = ("c20_roll_missed", {"security": n, "now": str(now), "roll_date": str(tab.loc[n, "date"]), "position": c.position})
                    return r
            names = set(exp) | set(trades)
            for n in names:
                if not abs(exp.get(n, 0.0) - trades.get(n, 0.0)) <= 1e-9 * (1 + abs(exp.get(n, 0.0))):
                    ctx.viol = ("c20_roll_quantities", {"security": n, "now": str(now), "traded": trades.get(n, 0.0), "expected": exp.get(n, 0.0), "newly_rolled": sorted(new)})
                    return r
            for n in done_before:
                if n in trades and n not in [tab.loc[x, "target"] for x in new]:
                    ctx.viol = ("c20_rolled_twice", {"security": n, "now": str(now)})
                    return r
        return r


class ActiveSpy(bt.Algo):
    def __init__(self, ctx):
        super(ActiveSpy, self).__init__()
        self.ctx = ctx

    def __call__(self, target):
        gone = set(target.perm.get("closed", set())) | set(target.perm.get("rolled", set()))
        common.bump(self.ctx.cnt, "select_active_evals")
        bad = [s for s in target.temp.get("selected", []) if s in gone]
        if bad and self.ctx.viol is None:
            self.ctx.viol = ("c20_selected_after_close", {"selected": bad, "now": str(target.now)})
        return True


class PreTrade(bt.Algo):
    """scripted quantity trades placed in front of the close / roll algo (as a hedging or execution algo earlier in the stack would): they leave
    the tree stale, so the close / roll acts on positions changed moments ago. Names already marked closed / rolled are left alone."""

    def __init__(self, script, ctx):
        super(PreTrade, self).__init__()
        self.script = script      # [(date, name, quantity)]
        self.ctx = ctx
        self.run_always = True

    def __call__(self, target):
        gone = set(target.perm.get("closed", set())) | set(target.perm.get("rolled", set()))
        for d, nm, q in self.script:
            if d == target.now and nm not in gone:
                px = target.universe.loc[target.now, nm]
                if px == px and px > 0:
                    target.transact(q, child=nm)
                    common.bump(self.ctx.cnt, "pretrades")
        return True


def case_close_roll(cs, which):
    ins.install()
    ins.reset()
    rng = random.Random(cs)
    rs = np.random.RandomState(cs % (2 ** 32))
    nd = rng.randint(8, 18)
    n = rng.randint(3, 6)
    names = ["b%d" % i for i in range(n)]
    dts = pd.date_range("2020-01-01", periods=nd, freq="B")
    data = pd.DataFrame(100 * np.exp(np.cumsum(rs.randn(nd, n) * 0.01, axis=0)), index=dts, columns=names)
    ctx = CloseCtx()
    extra = {}
    if which == "close":
        k = rng.randint(1, min(3, n - 1))
        tab = pd.DataFrame({"date": [dts[rng.randint(1, nd - 1)] + pd.Timedelta(days=rng.choice([0, 0, 1])) for _ in range(k)]}, index=rng.sample(names, k))
        first = Wrapped(algos.ClosePositionsAfterDates("tab"), ctx, "close", tab)
    else:
        k = rng.randint(1, min(2, n - 2))
        src = rng.sample(names[:-1], k)
        tgt = names[-1] if rng.random() < 0.6 else None
        tab = pd.DataFrame({"date": [dts[rng.randint(1, nd - 1)] for _ in src], "target": [tgt or rng.choice([x for x in names if x not in src]) for _ in src],
                            "factor": [rng.choice([1.0, 0.5, 2.0]) for _ in src]}, index=src)
        first = Wrapped(algos.RollPositionsAfterDates("tab"), ctx, "roll", tab)
    extra["tab"] = tab
    sch = rng.choice([algos.RunDaily, algos.RunWeekly, algos.RunDaily])()
    always = rng.random() < 0.5
    weigh = algos.WeighEqually() if rng.random() < 0.7 else algos.WeighRandomly()
    fi = rng.random() < 0.4
    if rng.random() < 0.5:
        sigf = pd.DataFrame(rs.rand(nd, n) > 0.45, index=dts, columns=names)
        extra["sigf"] = sigf
        body = [algos.SelectWhere("sigf"), algos.SelectActive(), ActiveSpy(ctx), weigh]
    else:
        body = [algos.SelectAll(), algos.SelectActive(), ActiveSpy(ctx), weigh]
    if always:
        first.run_always = True
        head = [sch, first]
    else:
        head = [first, sch] if rng.random() < 0.5 else [sch, first]
    if rng.random() < 0.5:
        # quantity trades on and around the scheduled dates, in the scheduled names (and others), right before the close / roll algo runs
        script = []
        for nm in list(tab.index) + rng.sample(names, 1):
            base = tab.loc[nm, "date"] if nm in tab.index else dts[rng.randint(1, nd - 1)]
            for _ in range(rng.randint(1, 2)):
                d = base + pd.Timedelta(days=rng.choice([0, 0, 0, 1, -1]))
                script.append((d, nm, rng.choice([-1, 1]) * rng.randint(5, 400)))
        head = [PreTrade(script, ctx)] + head
    if fi:
        kids = [FixedIncomeSecurity(nm) for nm in names]
        s = FixedIncomeStrategy("s", head + body + [algos.SetNotional("nv"), algos.Rebalance()], children=kids)
        extra["nv"] = pd.Series(1e5, index=dts)
    else:
        kidmode = rng.choice(["lazy", "none", "eager", "eager"])
        s = Strategy("s", head + body + [algos.Rebalance()], children={"lazy": list(names), "none": None, "eager": [Security(nm) for nm in names]}[kidmode])
    t = bt.Backtest(s, data, integer_positions=False, additional_data=extra)
    sig = [which, always, fi, len(tab), type(sch).__name__]
    random.seed(cs)
    np.random.seed(cs % (2 ** 32))
    w = {"case_seed": cs, "table": {str(i): {c: str(tab.loc[i, c]) for c in tab.columns} for i in tab.index}, "run_always": always, "fixed_income": fi}
    try:
        t.run()
    except Exception as e:
        if isinstance(e, ZeroDivisionError):
            return common.result(common.OOD, sig=sig, why="zero base")
        return common.result(common.VIOL, sig=sig, nt=True, cnt=ctx.cnt, mech="c20_raises", witness=dict(w, exception="%s: %s" % (type(e).__name__, str(e)[:160])))
    if ctx.viol:
        return common.result(common.VIOL, sig=sig, nt=True, cnt=ctx.cnt, mech=ctx.viol[0], witness=dict(w, **ctx.viol[1]))
    # persistence: once marked, the end-of-date position stays 0
    P = t.strategy.positions.reindex(t.strategy.data.index).fillna(0.0)
    key = "closed" if which == "close" else "rolled"
    done = t.strategy.perm.get(key, set())
    for nm in done:
        if nm in P.columns and nm in ctx.marked:
            since = ctx.marked[nm]
            col = P[nm]
            late = col[(col.index >= since) & (col.abs() > 1e-12)]
            if len(late) and not (which == "roll" and nm in list(tab["target"])):
                return common.result(common.VIOL, sig=sig, nt=True, cnt=ctx.cnt, mech="c20_reopened",
                                     witness=dict(w, security=nm, marked_on=str(since), position_on=str(late.index[0]), position=float(late.iloc[0])))
    nt = ctx.cnt.get("closes_done", 0) + ctx.cnt.get("rolls_done", 0) > 0
    return common.result(common.HELD, sig=sig, nt=nt, cnt=ctx.cnt, sample=w)


class RiskBtCtx(mon2.SharedCtx):
    """inside real backtests: after every UpdateRisk call the risks of the whole tree are recomputed from the unit-risk frames as handed to Backtest"""

    def __init__(self, frames):
        self.frames = frames
        self.viol = None
        self.n = 0

    def after(self, probe, target, result):
        if self.viol is not None or type(probe.algo).__name__ != "UpdateRisk":
            return
        m = probe.algo.measure
        ur = self.frames[m]
        now = target.now
        for node in target.members:
            e = exp_risk(node, m, {m: ur}, now)
            self.n += 1
            got = node.risk.get(m) if hasattr(node, "risk") else None
            if got is None or not abs(got - e) <= 1e-9 * (1 + abs(e)):
                self.viol = ("c20_risk", {"node": node.full_name, "measure": m, "risk": got, "expected": e, "now": str(now), "inside": "Backtest"})
                return
        hist = probe.algo.history
        if hist > 0 and hasattr(target, "risks"):
            v = target.risks.loc[now, m] if now in target.risks.index else None
            if v is None or not abs(v - target.risk[m]) <= 1e-12 * (1 + abs(target.risk[m])):
                self.viol = ("c20_history_row", {"node": target.full_name, "measure": m, "row": v, "risk": target.risk[m], "now": str(now)})


def risk_bt_oracle(run, cnt, res, ctx):
    common.bump(cnt, "risk_bt_evals", ctx.n)
    return ctx.viol


def case_risk_bt(cs):
    spec = w2.gen(cs, risk=1.0, nested_p=0.0, solvers=False, pte=False)
    if "unit_risk" not in spec["extras"]:
        return common.result(common.OOD, why="no risk stack generated")
    idx, data, extras = w2.frames_of(spec)
    return _w2case.run_w2(cs, [risk_bt_oracle], spec=spec, setup=lambda: RiskBtCtx(extras["unit_risk"]))


def run_case(unit, cs, idx, build, params):
    if unit == "risk_bt":
        return case_risk_bt(cs)
    if unit == "risk":
        return case_risk(cs, False)
    if unit == "hedge":
        return case_risk(cs, True)
    return case_close_roll(cs, unit)
