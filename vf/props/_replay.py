"""Custom-price workloads inside real backtests: the transaction list of a generated run is replayed through ReplayTransactions
(every trade executes at a bespoke price against a zero bid/offer frame), and the date-level oracles are applied to the replay."""
import numpy as np
import pandas as pd

import bt
from bt import algos
from bt.core import SecurityBase

from .. import common, instrument as ins, w2
from . import _w2case


def replay_run(cs):
    ins.install()
    ins.reset()
    spec = w2.gen(cs, comms=["none"], flows=False, nested_p=0.2, pte=False, bidoffer_p=0.6)
    sig = ["replay"] + w2.signature(spec)
    run = w2.run(spec)
    if run.exc is not None:
        v, why = _w2case.classify_exc(run.exc, spec)
        return None, common.result(v, sig=sig, why=why)
    root = run.root
    secs = [m for m in root.members if isinstance(m, SecurityBase)]
    mults = {}
    for s in secs:
        mults.setdefault(s.name, set()).add(s.multiplier)
    if any(len(v) > 1 for v in mults.values()) or root.bankrupt:
        return None, common.result(common.OOD, sig=sig, why="not replayable on a flat tree")
    tx = root.get_transactions()
    if len(tx) == 0:
        return None, common.result(common.OOD, sig=sig, why="no trades to replay")
    idx, data, extras = w2.frames_of(spec)
    ex2 = {"tx": tx, "bidoffer": pd.DataFrame(0.0, index=data.index, columns=data.columns)}
    rp = bt.Strategy("replay", [algos.ReplayTransactions("tx")], children=[bt.Security(n, multiplier=list(m)[0]) for n, m in mults.items()])
    ins.reset()
    r2 = w2.Run()
    r2.spec = dict(spec, comm="none")
    r2.exc = None
    try:
        r2.bt = bt.Backtest(rp, data, integer_positions=False, additional_data=ex2, initial_capital=spec["capital"])
        r2.bt.run()
    except Exception as e:
        return None, common.result(common.INC, sig=sig, why="replay raised %s: %s" % (type(e).__name__, str(e)[:100]))
    r2.root = r2.bt.strategy
    r2.all_events = list(ins.EV)
    r2.events = [e for e in r2.all_events if e.get("root") is r2.root]
    r2.dates = list(r2.bt.dates)
    return (r2, sig, spec), None
