"""C15 - weighting algos produce the documented weights; PTE_Rebalance triggers exactly above its cap."""
import random

import numpy as np
import pandas as pd
import sklearn.covariance

import bt
from bt import algos

from .. import common

ID = "C15"
LEVEL = "exploration"
RULE = ("W3: a real Strategy with a random live portfolio advanced to a random date; one weighting algo with random selection (empty, single, "
        "many), window, lag, bounds/limits/targets is invoked and temp['weights'] compared with an algebraic oracle computed independently from "
        "the raw price frame (1/n; exact copy; linear rescale; dated row; w_i x sigma_i constant; equal risk contributions under the same "
        "covariance estimator; bounds + requested sum; cap respected with total preserved or {} when infeasible; |target - live weight| <= limit; "
        "ex-ante volatility == target; PTE trigger == (tracking-error volatility > cap)). One evaluation = one algo call; distinct = (algo, "
        "selection size class, parameter class); non-trivial = selection of >= 2 names (or the documented shortcut case for empty/single).")
ASSUMPTIONS = ["WeighMeanVar: only 'inside bounds, sums to one' is asserted (the statement does not name it)", "ERC risk contributions equal within 1e-3 relative",
               "ffn solver non-convergence is out of domain"]

BATCH = 10
KINDS = ["equal", "specified", "scale", "target", "invvol", "erc", "meanvar", "randomly", "limitw", "limitd", "targetvol", "pte"]


def plan(tier):
    q = tier == "quick"
    return [dict(unit="w3", n=700 if q else 8000, builds=["py"], case_timeout=300)]


def floors(tier):
    c = {"calls": 5000, "limitd_on_stale_tree": 80}
    for k in KINDS:
        c["calls_" + k] = 250 if k not in ("erc", "meanvar") else 120
    return {"min_decided": 5000, "counters": c, "max_undecided_frac": 0.2}


def mk(rng, rs):
    nd = rng.randint(30, 60)
    n = rng.randint(2, 6)
    cols = ["t%d" % i for i in range(n)]
    dts = pd.date_range("2020-01-01", periods=nd, freq="B")
    data = pd.DataFrame(100 * np.exp(np.cumsum(rs.randn(nd, n) * rs.uniform(0.005, 0.04, size=n), axis=0)), index=dts, columns=cols)
    s = bt.Strategy("s", [])
    s.use_integer_positions(False)
    s.setup(data)
    s.update(dts[0])
    s.adjust(1e6)
    i = rng.randint(20, nd - 1)
    for d in dts[: i + 1]:
        s.update(d)
        if d == dts[5]:
            for c in rng.sample(cols, rng.randint(0, n)):
                s.rebalance(rng.uniform(0.05, 0.3) * rng.choice([1, 1, 1, -1]), c)
    now = dts[i]
    s.update(now)
    return data, s, dts, now, cols, nd, n


def one(cs, j, which):
    rng = random.Random(cs * 100 + j)
    rs = np.random.RandomState((cs * 100 + j) % (2 ** 32))
    data, s, dts, now, cols, nd, n = mk(rng, rs)
    lb = pd.DateOffset(days=rng.choice([10, 20]))
    lag = pd.DateOffset(days=rng.choice([0, 1, 3]))
    r = rng.random()
    sel = [] if r < 0.08 else ([rng.choice(cols)] if r < 0.2 else rng.sample(cols, rng.randint(2, n)))
    t0 = now - lag
    win = data.loc[(data.index >= t0 - lb) & (data.index <= t0)]
    szc = "empty" if not sel else ("single" if len(sel) == 1 else "many")
    sig = [which, szc]
    w = {"algo": which, "selected": sel, "now": str(now), "lookback": str(lb), "lag": str(lag)}
    nt = len(sel) >= 2
    bad = None

    def fail(what, **kw):
        return (sig, "c15_" + which, dict(w, what=what, **kw), True)

    if which == "equal":
        s.temp = {"selected": list(sel)}
        algos.WeighEqually()(s)
        out = s.temp["weights"]
        if not sel:
            return (sig, None, w, True) if out == {} else fail("empty selection must give {}", got=out)
        if set(out) != set(sel) or any(abs(v - 1.0 / len(sel)) > 1e-15 for v in out.values()) or abs(sum(out.values()) - 1) > 1e-12:
            return fail("1/n each", got=out)
        return (sig, None, w, True)
    if which == "specified":
        spec = {c: float(x) for c, x in zip(sel, rs.uniform(-0.5, 1.0, size=len(sel)))}
        a = algos.WeighSpecified(**spec)
        a(s)
        out = s.temp["weights"]
        if out != spec:
            return fail("exact copy", got=out, expected=spec)
        out["zz"] = 1.0
        a(s)
        if "zz" in s.temp["weights"] or "zz" in a.weights:
            return fail("the algo's own dict is aliased")
        return (sig, None, w, True)
    if which == "scale":
        tw = {c: float(x) for c, x in zip(sel, rs.uniform(-0.5, 1.0, size=len(sel)))}
        k = rng.choice([0.5, -1.0, 1.3, 0.0, 2.0])
        s.temp = {"weights": dict(tw)}
        algos.ScaleWeights(k)(s)
        out = s.temp["weights"]
        if set(out) != set(tw) or any(abs(out[c] - k * tw[c]) > 1e-15 * (1 + abs(tw[c])) for c in tw):
            return fail("linear rescale", got=out, scale=k, before=tw)
        return (sig + [k], None, w, True)
    if which == "target":
        tcols = sel or cols[:1]
        twf = pd.DataFrame(rs.dirichlet(np.ones(len(tcols)), size=nd), index=dts, columns=tcols)
        for c in tcols:
            if rng.random() < 0.3:
                twf.loc[twf.index[rng.randint(0, nd - 1)]:, c] = np.nan
        if rng.random() < 0.4:
            twf = twf.iloc[:: rng.randint(2, 4)]
        byname = rng.random() < 0.5
        if byname:
            s._setup_kwargs["twf"] = twf
        s.temp = {"weights": "untouched"}
        r_ = algos.WeighTarget("twf" if byname else twf)(s)
        if now in twf.index:
            exp = twf.loc[now].dropna()
            out = s.temp["weights"]
            if not r_ or not isinstance(out, pd.Series) or list(out.index) != list(exp.index) or not np.array_equal(out.values, exp.values):
                return fail("the non-NaN row at now", got=dict(out) if hasattr(out, "items") else out, expected=exp.to_dict())
        else:
            if r_ or s.temp["weights"] != "untouched":
                return fail("False and weights untouched when now is not in the frame", returned=r_)
        return (sig + [now in twf.index], None, w, True)
    if which == "invvol":
        s.temp = {"selected": list(sel)}
        algos.WeighInvVol(lb, lag)(s)
        out = s.temp["weights"]
        if not sel:
            return (sig, None, w, True) if len(out) == 0 else fail("empty")
        if len(sel) == 1:
            return (sig, None, w, True) if dict(out) == {sel[0]: 1.0} else fail("single", got=dict(out))
        out = pd.Series(dict(out)) if not isinstance(out, pd.Series) else out
        sd = (win[sel] / win[sel].shift(1) - 1).dropna().std(ddof=1)
        prod = out[sel] * sd[sel]
        if not (abs(out.sum() - 1) < 1e-9 and (out >= 0).all() and (prod.max() - prod.min()) <= 1e-9 * prod.max() and set(out.index) == set(sel)):
            return fail("non-negative, sum 1, w x sigma constant over the window", got=out.to_dict(), sigma=sd.to_dict())
        return (sig, None, w, True)
    if which in ("erc", "meanvar"):
        s.temp = {"selected": list(sel)}
        lb2 = pd.DateOffset(days=40)
        budget = None
        try:
            if which == "erc":
                if len(sel) >= 2 and rng.random() < 0.5:
                    # a risk budget per selected name, positionally aligned with temp['selected'] (whose order is not the universe's)
                    budget = [float(x) for x in (0.1 + rs.dirichlet(np.ones(len(sel))))]
                    budget = [b / sum(budget) for b in budget]
                    w["risk_budget"] = dict(zip(sel, budget))
                algos.WeighERC(lookback=lb2, lag=lag, risk_weights=(np.array(budget) if budget is not None else None))(s)
            else:
                bounds = rng.choice([(0.0, 1.0), (0.05, 0.6), (0.0, 0.5)])
                if len(sel) * bounds[1] < 1.0 or len(sel) * bounds[0] > 1.0:
                    return "ood"
                w["bounds"] = bounds
                algos.WeighMeanVar(lookback=lb2, bounds=bounds, lag=lag)(s)
        except Exception as e:
            if "No solution" in str(e) or "ptimization" in str(e) or "converge" in str(e):
                return "ood"
            return fail("raises", exception="%s: %s" % (type(e).__name__, str(e)[:100]))
        out = s.temp["weights"]
        if not sel:
            return (sig, None, w, True) if len(out) == 0 else fail("empty")
        if len(sel) == 1:
            return (sig, None, w, True) if dict(out) == {sel[0]: 1.0} else fail("single", got=dict(out))
        out = pd.Series(dict(out)) if not isinstance(out, pd.Series) else out
        if out.isna().any() or len(out) != len(sel):
            return "ood"
        win2 = data.loc[(data.index >= t0 - lb2) & (data.index <= t0)]
        rets = (win2[sel] / win2[sel].shift(1) - 1).dropna()
        wv = out[sel].values
        if which == "erc":
            cov = sklearn.covariance.ledoit_wolf(rets)[0]
            rc = wv * (cov @ wv)
            if budget is not None:
                share = rc / rc.sum()
                if not (abs(wv.sum() - 1) < 1e-9 and (wv >= 0).all() and np.abs(share / np.array(budget) - 1).max() < 5e-3):
                    return fail("non-negative, sum 1, risk contributions in proportion to the budget", got=out.to_dict(), risk_shares=share.tolist(), budget=budget, selected=list(sel))
                sig = sig + ["budget"]
            elif not (abs(wv.sum() - 1) < 1e-9 and (wv >= 0).all() and (rc.max() - rc.min()) / rc.mean() < 1e-3):
                return fail("non-negative, sum 1, equal risk contributions", got=out.to_dict(), risk_contributions=rc.tolist())
        else:
            if not (abs(wv.sum() - 1) < 1e-6 and (wv >= bounds[0] - 1e-9).all() and (wv <= bounds[1] + 1e-9).all()):
                return fail("inside bounds and summing to one", got=out.to_dict())
        return (sig, None, w, True)
    if which == "randomly":
        lo = rng.choice([0.0, 0.05])
        hi = rng.choice([0.3, 0.6, 1.0])
        tot = rng.choice([1, 0.5])
        s.temp = {"selected": list(sel)}
        random.seed(cs + j)
        np.random.seed((cs + j) % (2 ** 32))
        algos.WeighRandomly((lo, hi), tot)(s)
        out = s.temp["weights"]
        feas = len(sel) * hi >= tot and len(sel) * lo <= tot and len(sel) > 0
        w.update(bounds=(lo, hi), weight_sum=tot)
        if not feas:
            return (sig + ["infeasible"], None, w, True) if out == {} else fail("infeasible bounds must give {}", got=out)
        o = pd.Series(out)
        if not (abs(o.sum() - tot) < 1e-9 and (o >= lo - 1e-12).all() and (o <= hi + 1e-12).all() and set(o.index) == set(sel)):
            return fail("inside bounds with the requested sum", got=out)
        return (sig, None, w, True)
    if which == "limitw":
        if not sel:
            s.temp = {"weights": {}}
            algos.LimitWeights(0.3)(s)
            return (sig, None, w, True) if s.temp["weights"] == {} else fail("empty")
        wv = rs.dirichlet(np.ones(len(sel)))
        tw = dict(zip(sel, [float(x) for x in wv]))
        lim = rng.choice([0.1, 0.3, 0.5, 0.8])
        s.temp = {"weights": dict(tw)}
        algos.LimitWeights(lim)(s)
        out = s.temp["weights"]
        w.update(limit=lim, before=tw)
        if lim < 1.0 / len(sel):
            return (sig + ["infeasible"], None, w, True) if len(out) == 0 else fail("infeasible cap must give {}", got=dict(out))
        out = pd.Series(dict(out))
        if not (out.max() <= lim + 1e-12 and abs(out.sum() - 1) < 1e-9 and set(out.index) == set(sel)):
            return fail("cap respected and total preserved", got=out.to_dict())
        return (sig, None, w, True)
    if which == "limitd":
        tw = {c: float(x) for c, x in zip(sel, rs.dirichlet(np.ones(len(sel))))} if sel else {}
        lim = rng.choice([0.05, 0.2]) if rng.random() < 0.6 else {c: rng.choice([0.05, 0.3]) for c in rng.sample(cols, rng.randint(1, n))}
        orig = dict(tw)
        s.temp = {"weights": tw}
        pend = rng.choice(["none", "none", "flow", "close", "trade"])
        held = [c for c in cols if c in s.children and s.children[c].position != 0]
        if pend == "flow":
            s.adjust(rng.choice([-1, 1]) * rng.uniform(0.1, 0.5) * 1e6)          # an algo earlier in the stack moved capital: the tree is stale
        elif pend == "close" and held:
            s.close(rng.choice(held), update=False)
            s.root.stale = True
        elif pend == "trade" and held:
            s.children[rng.choice(held)].transact(rng.uniform(-200, 200), update=False)
            s.root.stale = True
        else:
            pend = "none"
        if pend == "none":
            cur = {c: (s.children[c].weight if c in s.children else 0.0) for c in cols}
        algos.LimitDeltas(lim)(s)
        if pend != "none":
            # 'current weight' is what the tree shows once the pending change is flushed (which the first read does)
            cur = {c: (s.children[c].weight if c in s.children else 0.0) for c in cols}
        out = s.temp["weights"]
        w.update(limit=lim, before=orig, live=cur, pending=pend)
        for c in cols:
            tgt0 = orig.get(c, 0.0)
            lmt = lim if not isinstance(lim, dict) else lim.get(c)
            if lmt is None:
                if c in orig and out[c] != orig[c]:
                    return fail("unlisted key touched", key=c)
                continue
            if c not in out and c not in s.children and c not in orig:
                continue
            d0 = tgt0 - cur[c]
            if abs(d0) <= lmt + 1e-15:
                if c in orig and abs(out[c] - orig[c]) > 1e-15:
                    return fail("changed although already inside the limit", key=c, got=out[c])
            else:
                if c not in out:
                    return fail("no limited target written", key=c)
                if abs(abs(out[c] - cur[c]) - lmt) > 1e-12:
                    return fail("|new target - live weight| must equal the limit", key=c, got=out[c])
        return (sig + [isinstance(lim, dict), pend], None, w, True)
    if which == "targetvol":
        if not sel:
            s.temp = {"weights": {}}
            algos.TargetVol(0.1)(s)
            return (sig, None, w, True) if s.temp["weights"] == {} else fail("empty")
        wv = rs.dirichlet(np.ones(len(sel)))
        s.temp = {"weights": dict(zip(sel, [float(x) for x in wv]))}
        tv = rng.choice([0.05, 0.1, 0.2])
        af = rng.choice([252, 12])
        algos.TargetVol(tv, lookback=lb, lag=lag, annualization_factor=af)(s)
        out = pd.Series(s.temp["weights"])
        rets = win[sel] / win[sel].shift(1) - 1
        cov = rets.cov()
        ww = out[list(cov.columns)].values
        vol = np.sqrt(ww @ cov.values @ ww * af)
        if not abs(vol - tv) < 1e-9:
            return fail("ex-ante volatility equals the target", ex_ante=float(vol), target=tv, annualization=af)
        return (sig + [af], None, w, True)
    if which == "pte":
        tgt = pd.DataFrame(np.tile(rs.dirichlet(np.ones(n)), (nd, 1)), index=dts, columns=cols)
        cap = rng.choice([0.005, 0.02, 0.05, 0.1])
        r_ = algos.PTE_Rebalance(cap, tgt, lookback=lb, lag=lag)(s)
        if s.positions.shape == (0, 0):
            return (sig + ["noportfolio"], None, w, True) if r_ else fail("no portfolio yet: trigger")
        pos = s.positions.loc[now]
        cw = pos * data.loc[now, pos.index] / s.value
        d = pd.Series(0.0, index=cols)
        for c in cw.index:
            d[c] += cw[c]
        d -= tgt.loc[now]
        order = list(cw.index) + [c for c in cols if c not in cw.index]
        rets = win[order] / win[order].shift(1) - 1
        cov = rets.cov()
        v = np.sqrt(d[order].values @ cov.values @ d[order].values * 252)
        if abs(v - cap) < 1e-9:
            return None
        if bool(r_) != bool(v > cap):
            return fail("True exactly when tracking-error volatility exceeds the cap", returned=bool(r_), te_vol=float(v), cap=cap)
        return (sig + [bool(r_)], None, w, True)
    return None


def run_case(unit, cs, idx, build, params):
    cnt = {}
    out = []
    held = 0
    sigs = set()
    ood = 0
    sample = None
    rng = random.Random(cs)
    for j in range(BATCH):
        which = KINDS[(idx * BATCH + j) % len(KINDS)] if rng.random() < 0.8 else rng.choice(KINDS)
        r = one(cs, j, which)
        if r is None:
            continue
        if r == "ood":
            ood += 1
            continue
        sig, mech, w, nt = r
        common.bump(cnt, "calls")
        common.bump(cnt, "calls_" + sig[0])
        if sig[0] == "limitd" and w.get("pending", "none") != "none":
            common.bump(cnt, "limitd_on_stale_tree")
        if mech:
            out.append(common.result(common.VIOL, sig=sig, nt=True, mech=mech, witness=dict(w, case_seed=cs, sub_index=j)))
        else:
            held += 1
            sigs.add(tuple(map(str, sig)))
            if sample is None:
                sample = w
    r = common.result(common.HELD, nt=True, cnt=cnt, sample=sample or {"batch": BATCH})
    r["n"] = held
    r["sigs"] = [list(s_) for s_ in sigs]
    out.append(r)
    if ood:
        o = common.result(common.OOD, why="solver did not converge / infeasible bounds")
        o["n"] = ood
        out.append(o)
    return out
