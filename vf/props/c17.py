"""C17 - fixed-income strategies account by notional, coupons and carry; additive index; notional-based Rebalance."""
import random

import numpy as np
import pandas as pd

import bt
from bt import algos
from bt.core import (CouponPayingHedgeSecurity, CouponPayingSecurity, FixedIncomeSecurity, FixedIncomeStrategy, HedgeSecurity, Security,
                     SecurityBase)

from .. import common, instrument as ins, mon2, w5

ID = "C17"
LEVEL = "exploration"
RULE = ("Unit 'ops': FixedIncomeStrategy over random mixes of Security / FixedIncomeSecurity / CouponPayingSecurity / HedgeSecurity / "
        "CouponPayingHedgeSecurity with irregular coupon and asymmetric cost frames, driven by random rebalance/transact/close/adjust/update "
        "sequences; after every operation: notional per type, strategy notional = sum |child|, weight = notional / strategy notional; per date: "
        "coupon and holding-cost rows from the input frames and the end-of-day position, sweep into parent cash exactly once on the next date, "
        "additive index P[t] = P[t-1] + 100 x (dV - F) / N. Unit 'stacks': SetNotional + Rebalance through real Backtests - every targeted child's "
        "notional equals w x base after each Rebalance; RenormalizedFixedIncomeResult identity. Distinct = (type mix, costs, schedule, mode); "
        "non-trivial = >= 1 coupon-paying position accrued or >= 1 rebalance.")
ASSUMPTIONS = ["CouponPayingSecurity(fixed_income=False) (market-value sizing with par notional) is a user-selected mode left out of the oracle",
               "zero-notional with pnl raises by design (C10b)"]


def plan(tier):
    q = tier == "quick"
    return [dict(unit="ops", n=700 if q else 8000, builds=["py", "so"], case_timeout=60),
            dict(unit="stacks", n=350 if q else 4000, builds=["py", "so"], case_timeout=120)]


def floors(tier):
    return {"min_decided": 1200, "counters": {"notional_evals": 20000, "coupon_evals": 3000, "sweep_evals": 1500, "index_evals": 3000, "target_evals": 5000,
                                              "renorm_evals": 300}, "max_undecided_frac": 0.3}


def exp_notional(m):
    if isinstance(m, (HedgeSecurity, CouponPayingHedgeSecurity)):
        return 0.0
    if isinstance(m, FixedIncomeSecurity):
        return m.position
    return m.value


def case_ops(cs):
    rng = random.Random(cs)
    spec = w5.gen(cs, nd=(4, 10))
    spec["lazy"] = [False] * len(spec["names"])      # this unit addresses every child by name from the first date on
    idx, data, ex = w5.frames(spec)
    names = spec["names"]
    root = FixedIncomeStrategy("fi", children=w5.children(spec))
    root.use_integer_positions(spec["integer"])
    if spec["comm"] != "none":
        root.set_commissions(ins.Comm(spec["comm"]))
    kw = {k: v for k, v in ex.items() if k != "nv"}
    ins.install()
    ins.reset()
    root.setup(data, **kw)
    cnt = {}
    sig = w5.signature(spec)[:1] + [spec["integer"], spec["comm"], spec["bidoffer"] is not None]
    prev_accr = None
    accrued_any = False
    P_prev, V_prev, N_prev = 100.0, 0.0, 0.0
    w = {"case_seed": cs, "kinds": dict(zip(names, spec["kinds"])), "integer": spec["integer"]}
    try:
        for di, dt in enumerate(idx):
            cap_before = root.capital
            root.update(dt)
            if prev_accr is not None:
                common.bump(cnt, "sweep_evals")
                got = root.capital - cap_before
                if not abs(got - prev_accr) <= 1e-8 * (1 + abs(prev_accr) + abs(cap_before)):
                    return common.result(common.VIOL, sig=sig, nt=True, cnt=cnt, mech="c17_sweep", witness=dict(w, date=str(dt), swept=got, expected=prev_accr))
                root.update(dt)
                if not abs(root.capital - cap_before - prev_accr) <= 1e-8 * (1 + abs(prev_accr) + abs(cap_before)):
                    return common.result(common.VIOL, sig=sig, nt=True, cnt=cnt, mech="c17_sweep_twice", witness=dict(w, date=str(dt)))
            flows_today = 0.0
            for _ in range(rng.randint(1, 4)):
                N0 = root.notional_value
                op = rng.choice(["rebalance", "transact", "close", "adjust", "update"]) if N0 > 0 else rng.choice(["rebalance", "transact"])
                c = rng.choice(names)
                if not N0 > 0:
                    c = rng.choice([nm for nm, k in zip(names, spec["kinds"]) if k not in ("hedge", "cphedge")])
                if op == "rebalance" and spec["kinds"][names.index(c)] in ("hedge", "cphedge", "sec") and not spec["prices"][di][names.index(c)] > 0:
                    op = "transact"      # capital cannot be allocated at a zero/negative mark (C10); quantity trades are legal
                if op == "rebalance":
                    base = (rng.choice([np.nan, rng.uniform(1e4, 1e6)]) if N0 > 0 else rng.uniform(1e4, 1e6))
                    root.rebalance(rng.uniform(-0.5, 1.0), c, base=base)
                elif op == "transact":
                    root.transact(rng.uniform(-1e4, 2e4), c)
                elif op == "close":
                    root.close(c)
                elif op == "adjust":
                    a = rng.uniform(-1e4, 1e4)
                    fl = rng.random() < 0.5
                    root.adjust(a, flow=fl)
                    if fl:
                        flows_today += a
                else:
                    root.update(dt)
                N = root.notional_value
                tot = 0.0
                for m in root.children.values():
                    en = exp_notional(m)
                    common.bump(cnt, "notional_evals")
                    if not abs(m.notional_value - en) <= 1e-9 * (1 + abs(en)):
                        return common.result(common.VIOL, sig=sig, nt=True, cnt=cnt, mech="c17_notional", witness=dict(w, node=m.name, type=type(m).__name__, notional=m.notional_value, expected=en, op=op))
                    tot += abs(en)
                if not abs(N - tot) <= 1e-9 * (1 + tot):
                    return common.result(common.VIOL, sig=sig, nt=True, cnt=cnt, mech="c17_strategy_notional", witness=dict(w, notional=N, expected=tot, op=op))
                for m in root.children.values():
                    ew = exp_notional(m) / N if abs(N) > 1e-16 else 0.0
                    if not abs(m.weight - ew) <= 1e-9 * (1 + abs(ew)):
                        return common.result(common.VIOL, sig=sig, nt=True, cnt=cnt, mech="c17_weight", witness=dict(w, node=m.name, weight=m.weight, expected=ew, op=op))
            root.update(dt)
            accr = 0.0
            for m in root.children.values():
                if isinstance(m, CouponPayingSecurity):
                    pos = m.position
                    j = names.index(m.name)
                    cpn = pos * spec["coupons"][di][j]
                    cost = 0.0
                    if pos > 0 and spec["cost_long"] is not None:
                        cost = pos * spec["cost_long"][di][j]
                    if pos < 0 and spec["cost_short"] is not None:
                        cost = -pos * spec["cost_short"][di][j]
                    common.bump(cnt, "coupon_evals")
                    if pos != 0:
                        accrued_any = True
                    gc = m.coupons.get(dt, 0.0)
                    gh = m.holding_costs.get(dt, 0.0)
                    if not abs(gc - cpn) <= 1e-9 * (1 + abs(cpn)):
                        return common.result(common.VIOL, sig=sig, nt=True, cnt=cnt, mech="c17_coupon_row", witness=dict(w, node=m.name, date=str(dt), recorded=gc, expected=cpn, position=pos))
                    if not abs(gh - cost) <= 1e-9 * (1 + abs(cost)):
                        return common.result(common.VIOL, sig=sig, nt=True, cnt=cnt, mech="c17_holding_cost_row", witness=dict(w, node=m.name, date=str(dt), recorded=gh, expected=cost, position=pos))
                    accr += cpn - cost
            V, P, NV, F = root.value, root.price, root.notional_value, root.flows[dt]
            if not abs(F - flows_today) <= 1e-9 * (1 + abs(flows_today)):
                return common.result(common.VIOL, sig=sig, nt=True, cnt=cnt, mech="c17_flows_row", witness=dict(w, date=str(dt), recorded=F, expected=flows_today))
            pnl = V - V_prev - flows_today
            if abs(N_prev) > 1e-16:
                exp = P_prev + 100 * pnl / N_prev
            elif abs(NV) > 1e-16:
                exp = P_prev + 100 * pnl / NV
            else:
                exp = P_prev
            common.bump(cnt, "index_evals")
            if not abs(P - exp) <= 1e-9 * (1 + abs(exp) + abs(100 * pnl / (N_prev or NV or 1.0))):
                return common.result(common.VIOL, sig=sig, nt=True, cnt=cnt, mech="c17_additive_index", witness=dict(w, date=str(dt), price=P, expected=exp, pnl=pnl, prev_notional=N_prev, notional=NV))
            P_prev, V_prev, N_prev = P, V, NV
            prev_accr = accr
    except ZeroDivisionError:
        return common.result(common.OOD, sig=sig, cnt=cnt, why="zero notional with pnl")
    except Exception as e:
        if common.is_guard_exc(e):
            return common.result(common.OOD, sig=sig, cnt=cnt, why="sizing guard")
        return common.result(common.VIOL, sig=sig, nt=True, cnt=cnt, mech="c17_raises", witness=dict(w, exception="%s: %s" % (type(e).__name__, str(e)[:160])))
    return common.result(common.HELD, sig=sig + [cs % 50], nt=accrued_any, cnt=cnt, sample=w5.sample_of(spec))


class NotionalSpy(bt.Algo):
    def __init__(self, log):
        super(NotionalSpy, self).__init__()
        self.log = log

    def __deepcopy__(self, memo):
        return self

    def __call__(self, t):
        if t.parent is t:
            self.log.append((t.now, t.temp.get("notional_value"), {c.name: (c.notional_value, c.weight, c.price, c.multiplier) for c in t.children.values()}, t.notional_value))
        return True


def case_stacks(cs):
    spec = w5.gen(cs)
    ins.reset()
    log = []
    run = w5.run_backtest(spec, extra_algos_back=[NotionalSpy(log)])
    sig = w5.signature(spec)
    sample = w5.sample_of(spec)
    cnt = {}
    w = {"case_seed": cs, "kinds": dict(zip(spec["names"], spec["kinds"])), "integer": spec["integer"], "weights": spec["weights"]}
    if run.exc is not None:
        e = run.exc
        if isinstance(e, ZeroDivisionError):
            return common.result(common.OOD, sig=sig, why="zero notional with pnl", sample=sample)
        if common.is_guard_exc(e):
            return common.result(common.OOD, sig=sig, why="sizing guard", sample=sample)
        return common.result(common.INC, sig=sig, why="bt raised %s: %s" % (type(e).__name__, str(e)[:100]), sample=sample)
    kinds = dict(zip(spec["names"], spec["kinds"]))
    prevN = 0.0
    for now, base, kidsnap, N in log:
        if base is None:
            prevN = N
            continue
        for nm, (notl, wgt, px, mult) in kidsnap.items():
            k = kinds[nm]
            if nm in spec["weights"]:
                row = list(run.frames[0].index).index(now)
                wt = w5.weight_at(spec, nm, row)
                T = wt * base if wt == wt else 0.0       # a name dropped from the dated targets is closed
                common.bump(cnt, "target_evals")
                if k in ("fi", "cp"):
                    tol = 1e-9 * (1 + abs(T)) + (1.0 if spec["integer"] else 0.0)
                else:
                    # market-value child: within one unit plus the costs of the call
                    # market-value child: within one unit plus the costs of the call (a sale must raise its amount net of costs)
                    tol = 1e-6 * (1 + abs(T)) + (px * mult if spec["integer"] else 0.0) + 0.05 * max(abs(T), abs(prevN)) * (1 if (spec["comm"] != "none" or spec["bidoffer"] is not None) else 0)
                if not abs(notl - T) <= tol:
                    return common.result(common.VIOL, sig=sig, nt=True, cnt=cnt, mech="c17_rebalance_target", sample=sample,
                                         witness=dict(w, date=str(now), child=nm, type=k, notional=notl, target=T, base=base, tolerance=tol))
            elif k in ("hedge", "cphedge"):
                if notl != 0.0:
                    return common.result(common.VIOL, sig=sig, nt=True, cnt=cnt, mech="c17_notional", witness=dict(w, node=nm, type=k, notional=notl, expected=0.0), sample=sample)
        if base == 0:
            common.bump(cnt, "zero_notional_rebalances")
        prevN = N
    # renormalised result
    t = run.bt
    nv = float(np.mean(spec["nv"]))
    r = bt.backtest.RenormalizedFixedIncomeResult(nv, t)
    V = t.strategy.values
    F = t.strategy.flows
    exp = 100 * (1 + ((V.diff() - F) / nv).cumsum())
    exp.iloc[0] = 100
    got = r.prices[t.name]
    common.bump(cnt, "renorm_evals")
    if not np.allclose(got.values, exp.values, rtol=1e-12, atol=1e-9):
        return common.result(common.VIOL, sig=sig, nt=True, cnt=cnt, mech="c17_renormalized", witness=dict(w, max_abs_diff=float(np.abs(got.values - exp.values).max())), sample=sample)
    try:
        bt.backtest.RenormalizedFixedIncomeResult(nv, bt.Backtest(bt.Strategy("mv", []), run.frames[0]))
        return common.result(common.VIOL, sig=sig, nt=True, cnt=cnt, mech="c17_renormalized", witness=dict(w, what="accepted a market-value strategy"), sample=sample)
    except ValueError:
        pass
    # the additive index over the whole run, with flows from the event log
    out = c17_index(run, cnt)
    if out:
        return common.result(common.VIOL, sig=sig, nt=True, cnt=cnt, mech=out[0], witness=dict(w, **out[1]), sample=sample)
    return common.result(common.HELD, sig=sig, nt=len(log) >= 1, cnt=cnt, sample=sample)


def c17_index(run, cnt):
    root = run.root
    tl = mon2.TreeLog("real", root, run.all_events, run.dates, run.spec["comm"])
    P = root.data["price"].to_numpy(dtype=float)
    V = root.data["value"].to_numpy(dtype=float)
    NV = root.data["notional_value"].to_numpy(dtype=float)
    n = mon2.last_row(root) + 1
    for i in range(n):
        fl = tl.flows(i, external_only=True)
        pv, pp, pn = (V[i - 1], P[i - 1], NV[i - 1]) if i > 0 else (0.0, 100.0, 0.0)
        pnl = V[i] - pv - fl
        if abs(pn) > 1e-16:
            exp = pp + 100 * pnl / pn
        elif abs(NV[i]) > 1e-16:
            exp = pp + 100 * pnl / NV[i]
        else:
            exp = pp
        common.bump(cnt, "index_evals")
        if not abs(P[i] - exp) <= 1e-9 * (1 + abs(exp) + abs(pp)):
            return ("c17_additive_index", {"date_index": i, "price": P[i], "expected": exp, "pnl": pnl, "prev_notional": pn, "notional": NV[i], "flows": fl})
    return None


def run_case(unit, cs, idx, build, params):
    if unit == "stacks":
        return case_stacks(cs)
    return case_ops(cs)
