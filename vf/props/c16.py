"""C16 - bankruptcy is detected, clean and terminal."""
import numpy as np

import bt
from bt.core import SecurityBase, StrategyBase

from .. import common, instrument as ins, mon1, mon2, w2
from . import _w2case

ID = "C16"
KNOWN_CEILING = {'k5_nested_residual': 0.02}   # share of all evaluations a known finding may reach before it counts as a violation again
LEVEL = "exploration"
RULE = ("W2 variants with leverage (gross 1-4x, mixed signs) and injected price jumps (x0.15 .. x2.2), flat and nested, all cost models. Oracle on the "
        "recorded histories, the trade log and spy algos in every stack: flagged <=> some recorded root value < 0; never a sub-strategy or a "
        "fixed-income strategy; after t_b every position in the tree is 0, value and cash constant, liquidation trades dated t_b, no algo of the real "
        "tree runs after t_b; re-setup clears the flag. Distinct = W2 signature + (bankrupt, nested); non-trivial = >=1 trade.")
ASSUMPTIONS = ["which of pre-/post-liquidation value is recorded at t_b is not fixed by the statement: both are accepted",
               "paper-trading shadows are roots of their own trees and may be flagged (they are not 'sub-strategies' of the real tree)"]


def plan(tier):
    q = tier == "quick"
    return [dict(unit="lev", n=500 if q else 6000, builds=["py", "so"], case_timeout=180),
            dict(unit="fi", n=60 if q else 600, builds=["py"], case_timeout=60),
            dict(unit="carry", n=300 if q else 3200, builds=["py", "so"], case_timeout=60),
            dict(unit="entry", n=240 if q else 2400, builds=["py", "so"], case_timeout=60)]


def floors(tier):
    return {"min_decided": 300, "counters": {"c16_bankrupt_runs": 40, "c16_solvent_runs": 100, "post_bankruptcy_dates": 300, "spy_calls": 5000, "fi_negative_dates": 50, "carry_runs": 300, "entry_runs": 200, "entry_bankrupt_entry": 40, "entry_bankrupt_reentry": 40, "entry_bankrupt_hedge_only": 40, "carry_sign_flips": 100, "update_done_evals": 20000},
            "max_undecided_frac": 0.3}


class SpyCtx(mon2.SharedCtx):
    def __init__(self):
        self.calls = []   # (id(top), now, algo name)
        self.updates = []  # (id(root), date, value, bankrupt flag, fixed income) at every completed outermost update
        ins.ON_UPDATE_DONE.append(self.on_update)

    def on_update(self, root, date):
        self.updates.append((id(root), date, root._value, bool(root.bankrupt), bool(root.fixed_income)))

    def before(self, probe, target):
        self.calls.append((id(ins.top(target)), target.now, probe.name))


def oracle(run, cnt, res, ctx):
    root = run.root
    V = root.data["value"].to_numpy(dtype=float)
    C = root.data["cash"].to_numpy(dtype=float)
    dates = list(root.data.index)
    n = mon2.last_row(root) + 1
    common.bump(cnt, "spy_calls", len(ctx.calls))
    neg = [i for i in range(n) if V[i] < 0 and abs(V[i]) >= 1e-16]
    # 'flagged on that date': no update of the real root completes with a negative value and the flag still down
    for rid, date, val, flag, fi in getattr(ctx, "updates", ()):
        if rid == id(root) and not fi:
            common.bump(cnt, "update_done_evals")
            if val < 0 and abs(val) >= 1e-16 and not flag:
                return ("c16_negative_not_flagged_at_update", {"date": str(date), "value": val})
    for m in root.members:
        if m is not root and isinstance(m, StrategyBase) and m.bankrupt:
            return ("c16_sub_flagged", {"node": m.full_name})
    if not root.bankrupt:
        common.bump(cnt, "c16_solvent_runs")
        if neg:
            return ("c16_negative_not_flagged", {"date": str(dates[neg[0]]), "value": V[neg[0]]})
        return None
    common.bump(cnt, "c16_bankrupt_runs")
    if not neg:
        # the value may have been negative only before liquidation and positive after? costs only make it worse -> must be visible
        return ("c16_flagged_without_negative_value", {"min_value": float(V[:n].min())})
    tb = neg[0]
    trades = [e for e in run.events if e["k"] == "trade"]
    late_tr = [e for e in trades if e["date"] > dates[tb]]
    nested_residual = None
    for m in root.members:
        if isinstance(m, SecurityBase):
            pos = m.data["position"].to_numpy(dtype=float)
            for i in range(tb + 1, n):
                common.bump(cnt, "post_bankruptcy_dates")
                if abs(pos[i]) > 1e-12:
                    w = {"node": m.full_name, "date": str(dates[i]), "position": pos[i], "t_b": str(dates[tb]), "parent_is_root": m.parent is root}
                    if m.parent is not root:
                        nested_residual = nested_residual or w
                    else:
                        return ("c16_residual_position", w)
                    break
    if nested_residual:
        return ("k5_nested_residual", nested_residual)
    if late_tr:
        e = late_tr[0]
        return ("c16_trade_after_bankruptcy", {"sec": e["sec"].full_name, "date": str(e["date"]), "q": e["q"], "t_b": str(dates[tb])})
    if n - tb > 2:
        g = 1e-9 * (1 + abs(V[tb]) + abs(C[tb + 1]))
        dv = np.abs(V[tb + 1:n] - V[tb + 1]).max()
        dc = np.abs(C[tb + 1:n] - C[tb + 1]).max()
        if dv > g or dc > g:
            return ("c16_not_constant", {"t_b": str(dates[tb]), "value_drift": float(dv), "cash_drift": float(dc)})
    if n - tb > 1:
        liq = sum(ins.trade_costs(e, run.spec["comm"])[1] + ins.trade_costs(e, run.spec["comm"])[2] for e in trades if e["date"] == dates[tb])
        g = 1e-9 * (1 + abs(V[tb]) + ins.gross(root))
        if not abs(V[tb + 1] - V[tb]) <= g:
            return ("c16_value_jump_after", {"t_b": str(dates[tb]), "value_t_b": V[tb], "value_next": V[tb + 1], "costs_on_t_b": liq})
    # on t_b itself nothing is held any more: value is cash
    held_tb = any(abs(m.data["position"].iloc[tb]) > 1e-12 for m in root.members if isinstance(m, SecurityBase))
    if not held_tb and nested_residual is None:
        tot_cash = sum(m.data["cash"].iloc[tb] for m in root.members if isinstance(m, StrategyBase))
        if not abs(V[tb] - tot_cash) <= 1e-9 * (1 + abs(V[tb]) + abs(tot_cash)):
            return ("c16_value_not_cash_on_bankruptcy_date", {"t_b": str(dates[tb]), "value": V[tb], "cash_in_tree": tot_cash})
    late_calls = [c for c in ctx.calls if c[0] == id(root) and not isinstance(c[1], int) and c[1] > dates[tb]]
    if late_calls:
        return ("c16_algos_after_bankruptcy", {"t_b": str(dates[tb]), "first_late_call": [str(late_calls[0][1]), late_calls[0][2]], "n": len(late_calls)})
    # a fresh setup clears the flag
    root.setup(run.bt.data, **run.bt.additional_data)
    if root.bankrupt:
        return ("c16_flag_survives_setup", {})
    return None


def case_fi(cs):
    """fixed-income strategies are never flagged, whatever their value does"""
    import random

    import pandas as pd
    from bt.core import CouponPayingSecurity, FixedIncomeSecurity, FixedIncomeStrategy

    rng = random.Random(cs)
    rs = np.random.RandomState(cs % (2 ** 32))
    nd = rng.randint(5, 12)
    dts = pd.date_range("2020-01-01", periods=nd, freq="B")
    tk = ["a", "b"]
    data = pd.DataFrame(100 * np.exp(np.cumsum(rs.randn(nd, 2) * 0.05, axis=0)), index=dts, columns=tk)
    s = FixedIncomeStrategy("fi", [], children=[FixedIncomeSecurity("a"), FixedIncomeSecurity("b")])
    s.use_integer_positions(False)
    s.setup(data)
    cnt = {}
    negs = 0
    for i, d in enumerate(dts):
        s.update(d)
        if i == 0:
            s.transact(rng.choice([1000, -1000]), child="a")
            s.transact(rng.choice([500, -2000]), child="b")
        s.update(d)
        if s.value < 0:
            negs += 1
        if s.bankrupt:
            return common.result(common.VIOL, sig=["fi"], nt=True, mech="c16_fi_flagged", witness={"case_seed": cs, "date": str(d), "value": s.value})
    cnt["fi_negative_dates"] = negs
    return common.result(common.HELD, sig=["fi", cs % 1000], nt=negs > 0, cnt=cnt, sample={"fi": "two FixedIncomeSecurity positions bought on the first date", "negative_dates": negs})


class CallSpy(bt.Algo):
    def __init__(self, ctx):
        super(CallSpy, self).__init__()
        self.ctx = ctx

    def __deepcopy__(self, memo):
        return self

    def __call__(self, target):
        self.ctx.calls.append((id(ins.top(target)), target.now, "spy"))
        return True


def case_carry(cs):
    """a leveraged market-value root over a coupon-paying / cost-bearing instrument, priced so that on one date the value BEFORE the carry swept
    that date and the value AFTER it lie on either side of zero (calibrated on a pilot run with flat prices): the carry is part of the value"""
    import random

    import pandas as pd
    from bt import algos
    from bt.core import CouponPayingSecurity, Security

    ins.install()
    rng = random.Random(cs)
    nd = rng.randint(5, 9)
    dts = pd.date_range("2021-03-01", periods=nd, freq="B")
    K = rng.choice([1e4, 1e5])
    L = rng.uniform(1.5, 4.0) * rng.choice([1, 1, -1])
    p0 = 100.0
    mode = rng.choice(["coupon", "cost", "both"])
    cpn = rng.uniform(0.05, 0.6) if mode in ("coupon", "both") else 0.0
    cost = rng.uniform(0.05, 0.6) if mode in ("cost", "both") else 0.0
    js = rng.randint(2, nd - 2)
    u = rng.uniform(-2.0, 2.0)
    comm = rng.choice(["none", "none", "prop"])
    integer = rng.random() < 0.3
    mult = rng.choice([1, 1, 10])
    sig = ["carry", mode, L > 0, comm, integer, mult]

    def go(px):
        ins.reset()
        ctx = SpyCtx()
        data = pd.DataFrame({"c": px, "e": [50.0] * nd}, index=dts)
        ex = {"coupons": pd.DataFrame({"c": [cpn] * nd}, index=dts)}
        if cost:
            ex["cost_long"] = pd.DataFrame({"c": [cost] * nd}, index=dts)
            ex["cost_short"] = pd.DataFrame({"c": [cost] * nd}, index=dts)
        st = bt.Strategy("s", [CallSpy(ctx), algos.RunOnce(), algos.SelectThese(["c"]), algos.WeighSpecified(c=L), algos.Rebalance()],
                         children=[CouponPayingSecurity("c", multiplier=mult), Security("e")])
        r = w2.Run()
        r.spec = {"comm": comm}
        mark = len(ins.EV)
        r.exc = None
        try:
            r.bt = bt.Backtest(st, data, initial_capital=K, integer_positions=integer, commissions=(ins.Comm(comm) if comm != "none" else None), additional_data=ex)
            r.bt.run()
        except Exception as e:
            r.exc = e
            return r, ctx
        r.root = r.bt.strategy
        r.all_events = ins.EV[mark:]
        r.events = [e for e in r.all_events if e.get("root") is r.root]
        r.dates = list(r.bt.dates)
        return r, ctx

    pilot, _ = go([p0] * nd)
    if pilot.exc is not None:
        return common.result(common.INC, sig=sig, why="pilot raised %s" % type(pilot.exc).__name__)
    Vp = pilot.root.data["value"].to_numpy(dtype=float)
    q = float(pilot.root["c"].data["position"].iloc[1]) * mult
    y = Vp[js + 1] - Vp[js]          # rows are shifted by the synthetic first row: data row js is history row js + 1
    if q == 0 or y == 0:
        return common.result(common.OOD, sig=sig, why="pilot holds nothing / no carry")
    p1 = p0 + (u * abs(y) - Vp[js]) / q
    if not p1 > 0:
        return common.result(common.OOD, sig=sig, why="calibrated price not positive")
    run, ctx = go([p0] * js + [p1] * (nd - js))
    cnt = {"carry_runs": 1}
    w = {"case_seed": cs, "mode": mode, "leverage": L, "capital": K, "coupon": cpn, "cost": cost, "jump_row": js, "pre_carry_value_over_carry": u, "carry": y,
         "calibrated_price": p1, "comm": comm, "integer": integer, "mult": mult}
    if run.exc is not None:
        if isinstance(run.exc, ZeroDivisionError) or common.is_guard_exc(run.exc):
            return common.result(common.OOD, sig=sig, why="zero base / sizing guard", sample=w)
        return common.result(common.INC, sig=sig, why="bt raised %s: %s" % (type(run.exc).__name__, str(run.exc)[:100]))
    pre, post = u * abs(y), u * abs(y) + y
    if (pre < 0) != (post < 0):
        common.bump(cnt, "carry_sign_flips")
    res = {}
    out = oracle(run, cnt, res, ctx)
    if out:
        return common.result(common.VIOL, sig=sig, nt=True, cnt=cnt, mech=out[0], witness=dict(w, **out[1]), sample=w)
    return common.result(common.HELD, sig=sig + [bool(run.root.bankrupt)], nt=True, cnt=cnt, sample=w)


class Script(bt.Algo):
    """quantity trades on given data rows"""

    def __init__(self, trades):
        super(Script, self).__init__()
        self.trades = trades     # [(date, name, q)]

    def __call__(self, target):
        for d, nm, q in self.trades:
            if d == target.now:
                target.transact(q, child=nm)
        return True


def case_entry(cs):
    """bankruptcies whose declaring update is the first one to see the positions: (a) an all-cash book enters through a spread wide enough to
    wipe it out on the entry date, (b) the same on a re-entry after a stretch fully in cash, (c) a market-value root holding only hedge
    instruments (which carry no notional) through a price crash"""
    import random

    import pandas as pd
    from bt import algos
    from bt.core import HedgeSecurity, Security

    ins.install()
    rng = random.Random(cs)
    rs = np.random.RandomState(cs % (2 ** 32))
    nd = rng.randint(6, 10)
    dts = pd.date_range("2021-03-01", periods=nd, freq="B")
    K = rng.choice([1e4, 1e5])
    integer = rng.random() < 0.4
    kind = rng.choice(["entry", "reentry", "hedge_only"])
    px = 100 * np.exp(np.cumsum(rs.randn(nd, 2) * 0.01, axis=0))
    data = pd.DataFrame(px, index=dts, columns=["a", "b"])
    ex = {}
    comm = "none"
    w = {"case_seed": cs, "kind": kind, "capital": K, "integer": integer}
    if kind in ("entry", "reentry"):
        L = rng.uniform(3.0, 5.0)
        f = rng.uniform(1.0, 1.9)
        k0 = 0 if kind == "entry" else rng.randint(3, nd - 2)
        bo = np.zeros((nd, 2))
        bo[k0:, :] = f * px[k0:, :]
        ex["bidoffer"] = pd.DataFrame(bo, index=dts, columns=["a", "b"])
        tw = np.full((nd, 2), np.nan)
        if kind == "reentry":
            tw[0] = [0.5, 0.3]
            tw[rng.randint(1, k0 - 1)] = [0.0, 0.0]
        tw[k0] = [L * 0.6, L * 0.4] if rng.random() < 0.7 else [L, 0.0]
        ex["tw"] = pd.DataFrame(tw, index=dts, columns=["a", "b"]).dropna(how="all")
        w.update(leverage=L, spread_over_price=f, entry_row=k0)
        ctx_holder = []

        def mk(ctx):
            return bt.Strategy("s", [CallSpy(ctx), algos.WeighTarget("tw"), algos.Rebalance()], children=[Security("a"), Security("b")] if rng.random() < 0.5 else None)
    else:
        q = rng.choice([-1, 1]) * rng.uniform(2.0, 4.0) * K / 100.0
        if integer:
            q = float(int(q))
        k0 = rng.randint(2, nd - 2)
        data.loc[dts[k0]:, "a"] = data.loc[dts[k0 - 1], "a"] * (0.4 if q > 0 else 1.7)
        w.update(hedge_quantity=q, crash_row=k0)

        def mk(ctx):
            return bt.Strategy("s", [CallSpy(ctx), Script([(dts[0], "a", q)])], children=[HedgeSecurity("a"), Security("b")])
    sig = ["entry", kind, integer]
    ins.reset()
    ctx = SpyCtx()
    st = mk(ctx)
    r = w2.Run()
    r.spec = {"comm": comm}
    mark = len(ins.EV)
    try:
        r.bt = bt.Backtest(st, data, initial_capital=K, integer_positions=integer, additional_data=ex)
        r.bt.run()
    except Exception as e:
        if isinstance(e, ZeroDivisionError) or common.is_guard_exc(e):
            return common.result(common.OOD, sig=sig, why="zero base / sizing guard", sample=w)
        return common.result(common.INC, sig=sig, why="bt raised %s: %s" % (type(e).__name__, str(e)[:100]))
    r.exc = None
    r.root = r.bt.strategy
    r.all_events = ins.EV[mark:]
    r.events = [e for e in r.all_events if e.get("root") is r.root]
    r.dates = list(r.bt.dates)
    cnt = {"entry_runs": 1}
    if r.root.bankrupt:
        common.bump(cnt, "entry_bankrupt_" + kind)
    out = oracle(r, cnt, {}, ctx)
    if out:
        return common.result(common.VIOL, sig=sig, nt=True, cnt=cnt, mech=out[0], witness=dict(w, **out[1]), sample=w)
    return common.result(common.HELD, sig=sig + [bool(r.root.bankrupt)], nt=True, cnt=cnt, sample=w)


def run_case(unit, cs, idx, build, params):
    if unit == "fi":
        return case_fi(cs)
    if unit == "carry":
        return case_carry(cs)
    if unit == "entry":
        return case_entry(cs)
    opts = dict(leverage=True, jumps=2, flows=False, solvers=False, late_p=0.2, nested_p=0.4)
    r = _w2case.run_w2(cs, [oracle], gen_opts=opts, setup=SpyCtx)
    if r.get("sig") is not None:
        r["sig"] = list(r["sig"]) + [r.get("cnt", {}).get("c16_bankrupt_runs", 0)]
    return r
