"""C01 - balance-sheet identity at every node, and recorded rows equal the end-of-date state."""
from .. import mon1, mon2
from . import _w1case, _w2case

ID = "C01"
KNOWN_CEILING = {'k5_weight': 0.01}   # share of all evaluations a known finding may reach before it counts as a violation again
LEVEL = "exploration"
RULE = ("W1: seeded random trees (depth<=3, lazy/eager/shared tickers, sub-strategies) driven by random interleavings of "
        "adjust/allocate/rebalance/close/flatten/transact/update/read; identity read through the public properties after every operation "
        "and every end of date on the real tree and on every paper shadow; recorded rows compared with end-of-date snapshots. "
        "A case is non-trivial if it executed >=1 trade and >=3 operations; distinct = distinct (tree shape, position mode, cost model, "
        "spread, op-kind set, #dates) signatures.")
ASSUMPTIONS = ["harness-side wrappers observe every trade/adjust (class-level, both builds)", "tolerance 1e-9 x (1 + gross exposure of the whole tree)"]


def plan(tier):
    n = 1500 if tier == "quick" else 16000
    m = 300 if tier == "quick" else 3200
    return [dict(unit="w1", n=n, builds=["py", "so"], case_timeout=60), dict(unit="w2", n=m, builds=["py", "so"], case_timeout=120),
            dict(unit="fi", n=300 if tier == "quick" else 3200, builds=["py", "so"], case_timeout=60),
            dict(unit="w2lev", n=300 if tier == "quick" else 2400, builds=["py", "so"], case_timeout=120)]


def floors(tier):
    return {"min_decided": 300, "counters": {"identity_evals": 20000, "row_evals": 5000, "trades": 500, "c01_row_evals": 20000, "identity_points": 1000, "notional_evals": 8000, "row_identity_evals": 50000, "obs_bankrupt_runs": 15}, "max_undecided_frac": 0.4}


def run_case(unit, cs, idx, build, params):
    if unit == "fi":
        # fixed-income trees: node notional per type, strategy notional = sum |child|, weights = notional shares, after every operation
        from . import c17
        return c17.case_ops(cs)
    if unit == "w2lev":
        # leveraged stacks over jumping prices: roots go bankrupt mid-run and are liquidated inside an update; the rows of that date still
        # have to describe one state. No probes: nothing reads the tree between the declaring update and the next date
        return _w2case.run_w2(cs, [mon2.c01_rows_only], gen_opts=dict(leverage=True, jumps=2, flows=False, solvers=False, late_p=0.2, nested_p=0.3))
    if unit == "w2":
        return _w2case.run_w2(cs, [mon2.c01_w2], setup=lambda: mon2.IdentityCtx(cs), gen_opts={"fills": 0.3})
    return _w1case.run_w1(cs, [mon1.Identity()])
