"""C13 - stack control flow (short-circuit, run_always), Or/Not/Require/RunIfOutOfBounds, temp/perm and run order."""
import itertools
import random

import numpy as np
import pandas as pd

import bt
from bt import algos
from bt.core import AlgoStack

from .. import common

ID = "C13"
KNOWN_CEILING = {'k4_oob_cash_branch': 0.25}   # share of all evaluations a known finding may reach before it counts as a violation again
LEVEL = "exploration"
RULE = ("Unit 'flat' enumerates EVERY stack of length 0..5 over {returns True, returns False} x {no run_always attribute, run_always=True, "
        "run_always=False} (9331 programs) against a reference interpreter (which mocks ran, in which order, truthiness of the result). Unit "
        "'nested' samples programs with nested AlgoStacks, Or (1-3 branches), Not and run_always on composite nodes. Units 'require', 'oob' and "
        "'run' check Require, RunIfOutOfBounds on random portfolios, and Strategy.run (fresh temp, persistent perm, own stack before children, each "
        "child once) in 3-level trees through real Backtests. Distinct = distinct programs; non-trivial = at least one mock returned False or a "
        "composite node was present.")
ASSUMPTIONS = ["the reference interpreter encodes the statement: stop at first falsy result, afterwards run only algos whose run_always attribute is truthy"]

OPTS = [(r, ra) for r in (True, False) for ra in (None, True, False)]


def EXHAUSTIVE(tier, cnt):
    return cnt.get("flat_programs", 0) == sum(6 ** L for L in range(6))


def plan(tier):
    return [dict(unit="flat", n=31, builds=["py", "so"], fixed_n=True, case_timeout=300, chunk=2),
            dict(unit="nested", n=200 if tier == "quick" else 2000, builds=["py", "so"], case_timeout=120),
            dict(unit="require", n=20 if tier == "quick" else 200, builds=["py"], case_timeout=120),
            dict(unit="oob", n=150 if tier == "quick" else 1600, builds=["py", "so"], case_timeout=120),
            dict(unit="run", n=100 if tier == "quick" else 1200, builds=["py", "so"], case_timeout=120)]


def floors(tier):
    return {"min_decided": 300, "counters": {"flat_programs": 2 * 9331, "nested_programs": 10000, "require_evals": 500, "oob_evals": 1000, "run_dates": 1000},
            "max_undecided_frac": 0.1}


class Mock(object):
    def __init__(self, tag, ret, log):
        self.tag = tag
        self.ret = ret
        self.log = log

    def __call__(self, t):
        self.log.append(self.tag)
        return self.ret


def mk(tag, ret, ra, log):
    m = Mock(tag, ret, log)
    if ra is not None:
        m.run_always = ra
    return m


# ---- generic programs: ("m", tag, ret, ra) | ("stack", [nodes], ra) | ("or", [nodes], ra) | ("not", node, ra)
def build(node, log):
    k = node[0]
    if k == "m":
        return mk(node[1], node[2], node[3], log)
    if k == "stack":
        a = AlgoStack(*[build(x, log) for x in node[1]])
    elif k == "or":
        a = algos.Or([build(x, log) for x in node[1]])
    else:
        a = algos.Not(build(node[1], log))
    if node[-1] is not None:
        a.run_always = node[-1]
    return a


def ref(node, called):
    """reference interpreter; returns truthiness"""
    k = node[0]
    if k == "m":
        called.append(node[1])
        return bool(node[2])
    if k == "stack":
        failed = False
        for x in node[1]:
            if not failed:
                if not ref(x, called):
                    failed = True
            elif x[-1]:
                ref(x, called)
        return not failed
    if k == "or":
        res = False
        for x in node[1]:
            if ref(x, called):
                res = True
        return res
    return not ref(node[1], called)


def run_prog(node):
    log = []
    a = build(node, log)
    res = a(None)
    exp = []
    er = ref(node, exp)
    if log != exp or bool(res) != er:
        return {"program": repr(node)[:600], "called": log, "expected_called": exp, "result": repr(res), "expected_truthy": er}
    return None


def gen_node(rng, depth, tag):
    r = rng.random()
    ra = rng.choice([None, None, True, False])
    if depth >= 2 or r < 0.55:
        tag[0] += 1
        return ("m", tag[0], rng.random() < 0.6, ra)
    if r < 0.75:
        return ("stack", [gen_node(rng, depth + 1, tag) for _ in range(rng.randint(0, 3))], ra)
    if r < 0.9:
        return ("or", [gen_node(rng, depth + 1, tag) for _ in range(rng.randint(1, 3))], ra)
    return ("not", gen_node(rng, depth + 1, tag), ra)


def case_flat(idx, cnt):
    if idx == 30:
        combos = [(0, None)]
    else:
        combos = [(idx // 6 + 1, OPTS[idx % 6])]
    sigs = 0
    for L, first in combos:
        rest = itertools.product(OPTS, repeat=max(0, L - 1))
        for tail in rest:
            spec = ([first] if L else []) + list(tail)
            node = ("stack", [("m", i, r, ra) for i, (r, ra) in enumerate(spec)], None)
            bad = run_prog(node)
            common.bump(cnt, "flat_programs")
            sigs += 1
            if bad:
                return ("c13_stack", bad), sigs
    return None, sigs


def case_nested(rng, cnt):
    for _ in range(60):
        tag = [0]
        node = ("stack", [gen_node(rng, 0, tag) for _ in range(rng.randint(1, 4))], None)
        bad = run_prog(node)
        common.bump(cnt, "nested_programs")
        if bad:
            return ("c13_nested", bad)
    return None


def case_require(rng, cnt):
    for _ in range(40):
        if_none = rng.random() < 0.5
        item = rng.choice(["selected", "weights", "x"])
        state = rng.choice(["absent", "none", "empty", "full"])
        pred_kind = rng.choice(["nonempty", "empty", "true", "false"])
        pred = {"nonempty": lambda x: len(x) > 0, "empty": lambda x: len(x) == 0, "true": lambda x: True, "false": lambda x: False}[pred_kind]
        s = bt.Strategy("s", [])
        s.temp = {"other": 1}
        val = {"none": None, "empty": [], "full": ["a", "b"]}.get(state)
        if state != "absent":
            s.temp[item] = val
        exp = if_none if state in ("absent", "none") else pred(val)
        got = algos.Require(pred, item, if_none=if_none)(s)
        common.bump(cnt, "require_evals")
        if bool(got) != bool(exp):
            return ("c13_require", {"item": item, "state": state, "pred": pred_kind, "if_none": if_none, "got": repr(got), "expected": exp})
    return None


def case_oob(rng, cs, cnt):
    n = rng.randint(1, 5)
    tk = ["t%d" % i for i in range(n)]
    rs = np.random.RandomState(cs % (2 ** 32))
    dts = pd.date_range("2020-01-01", periods=3)
    data = pd.DataFrame(100 * np.exp(rs.randn(3, n) * 0.05), index=dts, columns=tk)
    s = bt.Strategy("s", [], children=tk if rng.random() < 0.5 else None)
    s.use_integer_positions(False)
    s.setup(data)
    s.update(dts[0])
    s.adjust(1e6)
    s.update(dts[0])
    held = rng.sample(tk, rng.randint(0, n))
    for t in held:
        s.rebalance(rng.uniform(0.05, 0.9 / max(1, len(held))), t)
    s.update(dts[1])
    mode = rng.choice(["absent", "weights", "weights", "weights", "cash"])
    tol = rng.choice([0.01, 0.05, 0.2, 0.5])
    # pending changes: the algo must judge the refreshed weights, not cached ones
    pend = rng.choice(["none", "none", "inflow", "outflow", "allocate"])
    if pend == "inflow":
        s.adjust(rng.uniform(0.1, 0.6) * 1e6)
    elif pend == "outflow":
        s.adjust(-rng.uniform(0.05, 0.3) * 1e6)
    elif pend == "allocate" and held:
        s.allocate(rng.uniform(0.05, 0.2) * 1e6, child=rng.choice(held))
    import copy as _copy
    ref = _copy.deepcopy(s)
    ref.update(ref.now)
    live_w = {c: ref.children[c].weight for c in ref.children}
    s.temp = {}
    tg = {}
    if mode != "absent":
        for t in rng.sample(tk, rng.randint(0, n)):
            cur = live_w.get(t, 0.0)
            r = rng.random()
            if r < 0.4 and cur != 0:
                tg[t] = cur * (1 + rng.uniform(-1.5, 1.5) * tol)
            else:
                tg[t] = rng.uniform(0.02, 0.6) * rng.choice([1, 1, -1])
        s.temp["weights"] = tg
    if mode == "cash":
        s.temp["cash"] = rng.uniform(0, 0.3)
    common.bump(cnt, "oob_evals")
    a = algos.RunIfOutOfBounds(tol)
    if mode == "absent":
        exp = True
    else:
        exp = False
        for c in s.children:
            if c in tg:
                dev = abs(live_w[c] / tg[c] - 1)
                if abs(dev - tol) < 1e-9:
                    return None  # on the knife edge: either answer is defensible
                if dev > tol:
                    exp = True
    try:
        got = a(s)
    except Exception as e:
        w = {"mode": mode, "tolerance": tol, "targets": tg, "exception": "%s: %s" % (type(e).__name__, str(e)[:100])}
        if mode == "cash" and isinstance(e, AttributeError) and not exp:
            return ("k4_oob_cash_branch", w)
        return ("c13_oob_exception", w)
    if mode == "cash" and not exp:
        return None  # cash branch reached without raising: intended semantics not recoverable from the code, nothing asserted
    if bool(got) != exp:
        return ("c13_oob", {"mode": mode, "tolerance": tol, "targets": tg, "weights": live_w, "pending": pend, "got": repr(got), "expected": exp})
    return None


class RunSpy(bt.Algo):
    """records the order of stack entries across the tree and the contents of temp/perm at entry"""

    def __init__(self, log, ret=True):
        super(RunSpy, self).__init__()
        self.log = log
        self.ret = ret

    def __deepcopy__(self, memo):
        c = RunSpy(self.log, self.ret)
        return c

    def __call__(self, t):
        self.log["calls"].append((t.full_name, str(t.now), sorted(t.temp.keys()), dict(t.perm), id(t)))
        t.temp["mark_%s" % t.name] = str(t.now)
        t.perm["count"] = t.perm.get("count", 0) + 1
        return self.ret


def case_run(rng, cs, cnt):
    rs = np.random.RandomState(cs % (2 ** 32))
    nd = rng.randint(3, 8)
    dts = pd.date_range("2020-01-01", periods=nd, freq="B")
    tk = ["t0", "t1", "t2"]
    data = pd.DataFrame(100 * np.exp(np.cumsum(rs.randn(nd, 3) * 0.02, axis=0)), index=dts, columns=tk)
    log = {"calls": [], "real_root": []}

    nspies = {}

    def stack(name, trade):
        st = [RunSpy(log)]
        if trade:
            st += [algos.SelectAll(), algos.WeighEqually(), algos.Rebalance()]
        nspies[name] = 1
        if rng.random() < 0.3:
            st.insert(1, RunSpy(log, ret=False))   # a failing algo: the own stack stops, children still run
            nspies[name] = 2
        return st

    shape = []
    kids = []
    for i in range(rng.randint(1, 3)):
        gk = []
        for j in range(rng.randint(0, 2)):
            gk.append(bt.Strategy("g%d%d" % (i, j), stack("g%d%d" % (i, j), True), children=rng.sample(tk, 2)))
        kids.append(bt.Strategy("c%d" % i, stack("c%d" % i, not gk), children=(gk or rng.sample(tk, 2))))
        shape.append(len(gk))
    names = [k.name for k in kids]
    root = bt.Strategy("root", [RunSpy(log), algos.SelectThese(names), algos.WeighEqually(), algos.Rebalance()], children=kids)
    t = bt.Backtest(root, data, integer_positions=False)
    real = t.strategy
    real_ids = {id(m): m.full_name for m in real.members}
    t.run()
    calls = [c for c in log["calls"] if c[4] in real_ids]
    order = [m.full_name for m in real.members if isinstance(m, bt.core.StrategyBase)]   # pre-order = own stack before children, children in order
    by_date = {}
    for c in calls:
        by_date.setdefault(c[1], []).append(c)
    for d in [str(x) for x in t.dates[1:]]:
        common.bump(cnt, "run_dates")
        got = by_date.get(d, [])
        # each strategy's first spy entry per date
        firsts = []
        seen = {}
        for c in got:
            seen[c[0]] = seen.get(c[0], 0) + 1
            if c[0] not in firsts:
                firsts.append(c[0])
        if firsts != order:
            return ("c13_run_order", {"date": d, "order": firsts, "expected": order, "shape": shape})
        for name in order:
            n_calls = sum(1 for c in got if c[0] == name)
            exp_calls = nspies.get(name.split(">")[-1], 1)
            if n_calls != exp_calls:
                return ("c13_run_count", {"date": d, "node": name, "spy_calls": n_calls, "expected": exp_calls})
        for name in order:
            first = [c for c in got if c[0] == name][0]
            if first[2]:
                return ("c13_temp_not_fresh", {"date": d, "node": name, "temp_keys_at_entry": first[2]})
    # perm persists: count at first spy entry on the k-th date equals (#spy calls so far)
    for name in order:
        cs_ = [c for c in calls if c[0] == name]
        run_total = 0
        for c in cs_:
            if c[3].get("count", 0) != run_total:
                return ("c13_perm_lost", {"node": name, "date": c[1], "perm_count": c[3].get("count", 0), "expected": run_total})
            run_total += 1
    return None


def run_case(unit, cs, idx, build_, params):
    rng = random.Random(cs)
    cnt = {}
    sigs = None
    if unit == "flat":
        viol, n = case_flat(idx, cnt)
        sample = {"enumerated": "all stacks with length/first option #%d" % idx, "programs": n}
        sigs = [["flat", idx, k] for k in range(min(n, 2000))]
    elif unit == "nested":
        viol = case_nested(rng, cnt)
        sample = {"example": repr(("stack", [gen_node(random.Random(cs), 0, [0]) for _ in range(2)], None))[:400]}
        sigs = [["nested", cs, k] for k in range(60)]
    elif unit == "require":
        viol = case_require(rng, cnt)
        sample = {"require": "40 random (item state, predicate, if_none) combinations"}
        sigs = [["require", cs % 1000]]
    elif unit == "oob":
        out = []
        for k in range(10):
            v = case_oob(rng, cs + k, cnt)
            if v:
                out.append(common.result(common.VIOL, nt=True, mech=v[0], witness=dict(v[1], case_seed=cs, sub_index=k)))
        r = common.result(common.HELD, nt=True, cnt=cnt, sample={"oob": "10 random portfolios/targets/tolerances"})
        r["n"] = 10 - len(out)
        r["sigs"] = [["oob", cs % 100000, k] for k in range(10)]
        return out + [r]
    else:
        viol = case_run(rng, cs, cnt)
        sample = {"run": "3-level tree with spies through a real Backtest"}
        sigs = [["run", cs % 100000]]
    r = common.result(common.VIOL if viol else common.HELD, nt=True, cnt=cnt, sample=sample, mech=viol[0] if viol else None,
                      witness=dict(viol[1], case_seed=cs) if viol else None)
    r["sigs"] = sigs
    return r
