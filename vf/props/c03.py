"""C03 - flow-neutral price index starting at 100."""
from .. import mon1
from .. import mon2
from . import _w1case, _w2case

ID = "C03"
LEVEL = "exploration"
RULE = ("Oracle A: recurrence P = P_prev x V / (V_prev + F*) after every operation and at every end of date, F* from the logged root "
        "adjust(flow=True) events; recorded flows row == F*; a pure root flow leaves the index unchanged. Non-trivial: >=1 trade and >=3 ops; "
        "distinct by case signature.")
ASSUMPTIONS = ["'a flow never moves the index' is read as the recurrence states it (the flow enters the denominator)"]


def plan(tier):
    n = 1500 if tier == "quick" else 40000
    m = 400 if tier == "quick" else 10000
    return [dict(unit="w1", n=n, builds=["py", "so"], case_timeout=60), dict(unit="w2", n=m, builds=["py", "so"], case_timeout=120)]


def floors(tier):
    return {"min_decided": 300, "counters": {"recurrence_evals": 5000, "flow_row_evals": 1000, "pure_flow_obs": 100, "c03_recurrence_evals": 10000}, "max_undecided_frac": 0.4}


def run_case(unit, cs, idx, build, params):
    if unit == "w2":
        return _w2case.run_w2(cs, [mon2.c03_recurrence], gen_opts={"quiet_flows": True})
    return _w1case.run_w1(cs, [mon1.Index()])
