"""C03 - flow-neutral price index starting at 100."""
from .. import mon1
import copy

import numpy as np

from .. import common, instrument as ins, mon1, mon2, w2
from . import _w1case, _w2case

ID = "C03"
LEVEL = "exploration"
RULE = ("Oracle A: recurrence P = P_prev x V / (V_prev + F*) after every operation and at every end of date, F* from the logged root "
        "adjust(flow=True) events; recorded flows row == F*; a pure root flow leaves the index unchanged. Non-trivial: >=1 trade and >=3 ops; "
        "distinct by case signature.")
ASSUMPTIONS = ["'a flow never moves the index' is read as the recurrence states it (the flow enters the denominator)"]


def plan(tier):
    n = 1500 if tier == "quick" else 16000
    m = 400 if tier == "quick" else 4000
    return [dict(unit="w1", n=n, builds=["py", "so"], case_timeout=60), dict(unit="w2", n=m, builds=["py", "so"], case_timeout=120),
            dict(unit="scale", n=120 if tier == "quick" else 1200, builds=["py", "so"], case_timeout=240)]


def floors(tier):
    return {"min_decided": 300, "counters": {"recurrence_evals": 5000, "flow_row_evals": 1000, "pure_flow_obs": 100, "c03_recurrence_evals": 10000, "scale_pairs": 300, "scale_dates": 10000}, "max_undecided_frac": 0.4}


def _scaled(spec, k):
    sp = copy.deepcopy(spec)
    sp["capital"] = spec["capital"] * k

    def walk(a):
        if "$run_always" in a:
            walk(a["$run_always"])
        elif a.get("a") in ("CapitalFlow", "QuietFlow"):
            a["args"] = [a["args"][0] * k]

    def node(n):
        for a in n["algos"]:
            walk(a)
        for c in n.get("children") or []:
            if c["type"] == "strat":
                node(c)

    node(sp["root"])
    return sp


def run_scale(cs):
    """Oracle B: fractional positions and size-proportional costs => the index does not depend on the amount of capital"""
    ins.install()
    ins.reset()
    spec = w2.gen(cs, integer=False, comms=["none", "prop"], quiet_flows=True, solvers=False)
    sig = ["scale"] + w2.signature(spec)
    base = w2.run(spec)
    if base.exc is not None:
        v, why = _w2case.classify_exc(base.exc, spec)
        return common.result(v, sig=sig, why=why)
    cnt = {}
    P0 = {who: r.data["price"].to_numpy(dtype=float) for who, r in mon1.trees(base.root)}
    ntr = sum(1 for e in base.events if e["k"] == "trade")
    for k in (1e-2, 3.7, 40.0):
        ins.reset()
        alt = w2.run(_scaled(spec, k))
        if alt.exc is not None and common.is_guard_exc(alt.exc):
            # K1: at large amounts the sizing search's absolute 1e-8 closeness test cannot be met in float64 - decided by C05/C10
            return common.result(common.OOD, sig=sig, cnt=cnt, why="sizing guard at scaled capital")
        if alt.exc is not None:
            return common.result(common.VIOL, sig=sig, nt=True, cnt=cnt, mech="c03_scale_run_raises",
                                 witness={"case_seed": cs, "multiple": k, "exception": "%s: %s" % (type(alt.exc).__name__, str(alt.exc)[:160]), "desc": spec["desc"]})
        common.bump(cnt, "scale_pairs")
        a = P0["real"]
        b = alt.root.data["price"].to_numpy(dtype=float)
        common.bump(cnt, "scale_dates", len(a))
        d = np.abs(a - b) / (1e-300 + np.abs(a))
        common.mx(cnt, "_", 0)
        if not (d <= 1e-9).all():
            i = int(np.argmax(d))
            if base.root.bankrupt or alt.root.bankrupt:
                return common.result(common.OOD, sig=sig, cnt=cnt, why="bankrupt run (liquidation sizes are not scale-free)")
            return common.result(common.VIOL, sig=sig, nt=True, cnt=cnt, mech="c03_index_depends_on_capital",
                                 witness={"case_seed": cs, "multiple": k, "date_index": i, "index_base": float(a[i]), "index_scaled": float(b[i]), "rel_diff": float(d[i]),
                                          "capital": spec["capital"], "desc": spec["desc"]})
    cnt.pop("_", None)
    return common.result(common.HELD, sig=sig, nt=ntr >= 1, cnt=cnt, sample=w2.sample_of(spec))


def run_case(unit, cs, idx, build, params):
    if unit == "scale":
        return run_scale(cs)
    if unit == "w2":
        return _w2case.run_w2(cs, [mon2.c03_recurrence], gen_opts={"quiet_flows": True})
    return _w1case.run_w1(cs, [mon1.Index()])
