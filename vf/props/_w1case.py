"""Shared glue: run one W1 case with a list of monitors and turn the outcome into a result record."""
from .. import common, w1


def run_w1(cs, monitors, guard_ood=True, gen_kw=None, classify=None, spec=None):
    spec = spec or w1.gen(cs, **(gen_kw or {}))
    drv = w1.Driver(spec, monitors, guard_ood=guard_ood)
    sig = w1.signature(spec)
    sample = {"tree": spec["tree"], "integer": spec["integer"], "comm": spec["comm"], "bidoffer": spec["bidoffer"] is not None,
              "capital": spec["capital"], "ops_first_dates": spec["ops"][:2], "n_dates": len(spec["ops"])}
    try:
        drv.run()
    except w1.Stop as s:
        if drv.viols:
            pass
        else:
            drv.cnt["stopped_" + s.why.split(":")[0][:24].replace(" ", "_")] = 1
            if drv.ops_done >= 3 and s.verdict == common.OOD:
                # what was observed before the stop still counts as observation, the case itself is undecided
                pass
            return common.result(s.verdict, sig=sig, cnt=drv.cnt, res=drv.res, why=s.why, sample=sample)
    nt = drv.trades >= 1 and drv.ops_done >= 3
    if drv.viols:
        mech, w = drv.viols[0]
        if classify:
            mech = classify(mech, w, drv) or mech
        w = dict(w, spec_summary=sample, case_seed=cs)
        return common.result(common.VIOL, sig=sig, nt=True, cnt=drv.cnt, res=drv.res, witness=w, mech=mech, sample=sample)
    return common.result(common.HELD, sig=sig, nt=nt, cnt=drv.cnt, res=drv.res, sample=sample)
