"""Shared glue: run one W2 backtest and apply date-level oracles."""
from .. import common, instrument as ins, w2


STAT_ALGOS = {"WeighMeanVar", "WeighERC", "TargetVol", "WeighInvVol"}


def classify_exc(e, spec=None):
    """(verdict, why) for an exception that escaped a generated well-formed backtest, for properties other than C10."""
    s = str(e)
    if isinstance(e, ZeroDivisionError):
        return common.OOD, "zero base"
    if common.is_guard_exc(e):
        return common.OOD, "sizing guard"
    if "No solution found" in s or "Optimization" in s or "optimization" in s or "singular" in s.lower() or "SVD did not converge" in s or "nan hedge notional" in s:
        return common.OOD, "solver"
    if "cannot convert float NaN to integer" in s and spec is not None and STAT_ALGOS & set(w2.algo_names(spec)):
        # a statistical weigher returned NaN weights (degenerate window): not "valid weights" in the sense of C10
        return common.OOD, "nan weights from a statistical weigher"
    return common.INC, "bt raised %s: %s" % (type(e).__name__, s[:100])


def run_w2(cs, oracles, gen_opts=None, setup=None, spec=None, nontrivial=None, after=None):
    """oracles: callables (run, cnt, res) -> None | (mech, witness)."""
    ins.install()
    ins.reset()
    spec = spec or w2.gen(cs, **(gen_opts or {}))
    ctx = setup() if setup else None
    kw = {}
    if ctx is not None and hasattr(ctx, "run_kwargs"):
        kw = ctx.run_kwargs()
    run = w2.run(spec, **kw)
    sig = w2.signature(spec)
    sample = w2.sample_of(spec)
    cnt, res = {}, {}
    if run.exc is not None:
        v, why = classify_exc(run.exc, spec)
        cnt["stopped_" + why.split(":")[0][:20].replace(" ", "_")] = 1
        return common.result(v, sig=sig, cnt=cnt, why=why, sample=sample)
    if ins.gross(run.root) > common.GROSS_MAX or ins.max_qty(run.root) > common.QTY_MAX:
        return common.result(common.OOD, sig=sig, why="magnitude", sample=sample)
    ntr = len([e for e in run.events if e["k"] == "trade"])
    common.bump(cnt, "trades", ntr)
    common.bump(cnt, "dates", len(run.dates))
    common.bump(cnt, "bankrupt_runs", 1 if run.root.bankrupt else 0)
    for name in set(w2.algo_names(spec)):
        common.bump(cnt, "algo_" + name)
    nt = ntr >= 1 and len(run.dates) >= 2
    for o in oracles:
        out = o(run, cnt, res) if ctx is None else o(run, cnt, res, ctx)
        if out:
            mech, w = out
            w = dict(w, case_seed=cs, desc=spec["desc"])
            return common.result(common.VIOL, sig=sig, nt=True, cnt=cnt, res=res, witness=w, mech=mech, sample=sample)
    return common.result(common.HELD, sig=sig, nt=nt, cnt=cnt, res=res, sample=sample)
