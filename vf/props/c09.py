"""C09 - a sub-strategy's index equals its stand-alone index, whatever it is allocated."""
import random

import numpy as np
import pandas as pd

import bt

from .. import common, instrument as ins, w2
from . import _w2case

ID = "C09"
KNOWN_CEILING = {'k8_bankrupt_shadow_keeps_trading': 0.02}   # share of all evaluations a known finding may reach before it counts as a violation again
LEVEL = "exploration"
RULE = ("Nested W2 backtests whose child stacks start with a calendar scheduler and contain no random algo; parents vary the allocation schedule "
        "(monthly/weekly/once/daily/every-n, weights incl. 0 so that a child never holds capital). Each child definition is additionally run alone "
        "through bt.Backtest on the same data/additional data/position mode/commissions (default capital); child.prices must equal the stand-alone "
        "prices bit-for-bit on every date, and the parent's universe column must equal child.prices. Distinct = (child stack, parent schedule, "
        "position mode, cost model); non-trivial = the stand-alone run traded at least once.")
ASSUMPTIONS = ["quantified over calendar-gated child stacks only (the shadow also runs on the synthetic pre-start row, where a RunPeriod algo returns False)"]


def plan(tier):
    q = tier == "quick"
    return [dict(unit="nested", n=220 if q else 2000, builds=["py", "so"], case_timeout=240)]


def floors(tier):
    return {"min_decided": 150, "counters": {"children_compared": 300, "dates_compared": 10000, "children_never_funded": 5, "children_with_substrategies": 40, "children_with_own_commissions": 60}, "max_undecided_frac": 0.3}


def run_case(unit, cs, idx, build, params):
    ins.install()
    ins.reset()
    spec = w2.gen(cs, nested_p=1.0, deterministic=True, zero_weight_child=True, flows=True, pte=False, deep_p=0.4, node_comms=0.3)
    sig = w2.signature(spec)
    sample = w2.sample_of(spec)
    run = w2.run(spec)
    cnt = {}
    if run.exc is not None:
        v, why = _w2case.classify_exc(run.exc, spec)
        return common.result(v, sig=sig, why=why, sample=sample)
    root = run.root
    nt = False
    idx_, data, extras = w2.frames_of(spec)
    for node in spec["root"]["children"]:
        if node["type"] != "strat":
            continue
        child = root[node["name"]]
        ctx = {"dates": list(idx_), "frames": extras}
        tpl = w2.mk_strategy(node, ctx)
        random.seed(spec["cs"])
        np.random.seed(spec["cs"] % (2 ** 32))
        # same settings: the backtest-level commission function if there is one, else the definition's own schedule (applied by mk_strategy)
        t2 = bt.Backtest(tpl, data, integer_positions=spec["integer"], commissions=(ins.Comm(spec["comm"]) if spec["comm"] != "none" else None),
                         additional_data=dict(extras))
        if "node_comms" in spec["desc"]:
            common.bump(cnt, "children_with_own_commissions")
        mark = len(ins.EV)
        try:
            t2.run()
        except Exception as e:
            v, why = _w2case.classify_exc(e, spec)
            if v == common.OOD:
                return common.result(common.OOD, sig=sig, why="stand-alone: " + why, sample=sample)
            return common.result(common.INC, sig=sig, why="stand-alone run raised %s: %s" % (type(e).__name__, str(e)[:80]), sample=sample)
        sa_trades = sum(1 for e in ins.EV[mark:] if e["k"] == "trade" and e["root"] is t2.strategy)
        a = child.prices
        b = t2.strategy.prices
        common.bump(cnt, "children_compared")
        common.bump(cnt, "dates_compared", len(a))
        if child.data["flows"].abs().sum() == 0:
            common.bump(cnt, "children_never_funded")
        if sa_trades:
            nt = True
        if any(k["type"] == "strat" for k in node.get("children") or []):
            common.bump(cnt, "children_with_substrategies")
        w = {"child": node["name"], "case_seed": cs, "desc": spec["desc"], "child_stack": node["algos"]}
        if len(a) != len(b) or not a.index.equals(b.index):
            return common.result(common.VIOL, sig=sig, nt=True, cnt=cnt, mech="c09_length", witness=dict(w, nested=len(a), standalone=len(b)), sample=sample)
        av, bv = a.to_numpy(dtype=float), b.to_numpy(dtype=float)
        eq = (av == bv) | (np.isnan(av) & np.isnan(bv))
        if not eq.all():
            i = int(np.argmin(eq))
            mech = "c09_index_differs"
            if t2.strategy.bankrupt:
                V = t2.strategy.data["value"].to_numpy(dtype=float)
                neg = np.where(V < 0)[0]
                if len(neg) and i >= neg[0]:     # identical strictly before the stand-alone run's bankruptcy date
                    mech = "k8_bankrupt_shadow_keeps_trading"
            return common.result(common.VIOL, sig=sig, nt=True, cnt=cnt, mech=mech, sample=sample,
                                 witness=dict(w, first_diff=str(a.index[i]), nested=float(av[i]), standalone=float(bv[i]), standalone_bankrupt=bool(t2.strategy.bankrupt)))
        u = root.universe[node["name"]].to_numpy(dtype=float)
        if len(u) != len(av) or not ((u == av) | (np.isnan(u) & np.isnan(av))).all():
            return common.result(common.VIOL, sig=sig, nt=True, cnt=cnt, mech="c09_parent_universe", witness=w, sample=sample)
    return common.result(common.HELD, sig=sig, nt=nt, cnt=cnt, sample=sample)
