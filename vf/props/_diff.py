"""Differential runs of one W2 spec under a controlled perturbation."""
from .. import common, instrument as ins, mon2, w2
from . import _w2case


def run_pair(spec, kw_a, kw_b, before_b=None):
    ins.install()
    ins.reset()
    a = w2.run(spec, **kw_a)
    fa = mon2.all_frames(a.root) if a.root is not None else None
    ta = trade_log(a)
    ins.reset()
    if before_b is not None:
        before_b()
    b = w2.run(spec, **kw_b)
    fb = mon2.all_frames(b.root) if b.root is not None else None
    tb = trade_log(b)
    return a, b, fa, fb, ta, tb


def trade_log(run):
    return [(e["sec"].full_name, str(e["date"]), e["q"], e["p"], e["cp"]) for e in run.events if e["k"] == "trade"]
