"""C06 - Rebalance brings every child to its target weight (incl. cash fraction, sub-strategy targets, RebalanceOverTime)."""
import random

import numpy as np
import pandas as pd

import bt
from bt import algos
from bt.core import SecurityBase, Strategy, StrategyBase

from .. import common, instrument as ins, mon2, w2
from . import _w2case

ID = "C06"
LEVEL = "exploration"
RULE = ("Unit 'rebalance': a real Strategy advanced to a random date with a random prior portfolio (flat / partial / full / with shorts / with a "
        "funded sub-strategy holding positions), random targets (long, short, sum <= 1), cash fraction 0-0.5, integer or fractional, all cost models "
        "and spreads; 1-3 successive Rebalance calls on successive dates. After each call: every target within one unit + 2 x costs of the call of "
        "(1-c) x w x V0 (1e-9 relative when fractional and cost-free), every non-target closed, the remainder in cash. Unit 'sub': capital sent to a "
        "sub-strategy target is spread over its children in proportion to their weights at entry. Unit 'rot': RebalanceOverTime(n) reaches the "
        "targets in n equal steps and disarms. Distinct = (prior, #targets, shorts, cash, nested, mode, costs, spread); non-trivial = the call traded.")
ASSUMPTIONS = ["'plus costs' is the whole call's costs (closing a sub-strategy refreshes weights mid-call)",
               "a dead stock (price 0) is not closed by bt by design and is not generated"]


def plan(tier):
    q = tier == "quick"
    return [dict(unit="rebalance", n=1500 if q else 16000, builds=["py", "so"], case_timeout=60),
            dict(unit="sub", n=300 if q else 3200, builds=["py", "so"], case_timeout=60),
            dict(unit="rot", n=300 if q else 3200, builds=["py", "so"], case_timeout=60),
            dict(unit="inrun", n=200 if q else 2000, builds=["py", "so"], case_timeout=180),
            dict(unit="fi", n=250 if q else 2400, builds=["py", "so"], case_timeout=120)]


def floors(tier):
    return {"min_decided": 1500, "counters": {"rebalance_calls": 3000, "target_evals": 6000, "closed_evals": 1500, "cash_fraction_calls": 800,
                                              "sub_spread_evals": 500, "rot_steps": 1500, "exact_evals": 1000, "empty_target_calls": 150, "inrun_calls": 3000, "inrun_target_evals": 5000, "fi_rebalance_calls": 1500, "fi_target_evals": 3000, "fi_closed_evals": 60}, "max_undecided_frac": 0.3}


def unit_cost(sec, kind):
    """one trading unit plus what trading that unit would cost (a unit whose fee does not fit the budget is legitimately not bought)"""
    px = sec.price
    if not (px == px):
        return 0.0
    u = abs(px * sec.multiplier)
    bo = sec._bidoffer if sec._bidoffer_set else 0.0
    return u + abs(ins.fee(kind, 1, u)) + 0.5 * abs(bo) * sec.multiplier


def call_costs(events, root, kind):
    c = 0.0
    n = 0
    for e in events:
        if e["k"] == "trade" and e["root"] is root:
            _, f, sp = ins.trade_costs(e, kind)
            c += abs(f) + abs(sp)      # a commission evaluated at a negative mark (swap-like instruments) is negative
            n += 1
    return c, n


def case_rebalance(cs):
    rng = random.Random(cs)
    rs = np.random.RandomState(cs % (2 ** 32))
    ins.install()
    ins.reset()
    tickers = ["t%d" % i for i in range(rng.randint(2, 5))]
    nd = 5
    dts = pd.date_range("2020-01-01", periods=nd, freq="B")
    prices = 100 * np.exp(np.cumsum(rs.randn(nd, len(tickers)) * 0.03, axis=0)) * rs.choice([1, 0.1, 5], size=len(tickers))
    data = pd.DataFrame(prices, index=dts, columns=tickers)
    nested = rng.random() < 0.4
    kids = [t if rng.random() < 0.6 else bt.Security(t, multiplier=rng.choice([1, 10])) for t in tickers]
    if nested:
        kids = kids + [Strategy("sub", [], children=rng.sample(tickers, rng.randint(1, len(tickers))))]
    root = Strategy("root", [], children=kids)
    integer = rng.random() < 0.5
    root.use_integer_positions(integer)
    kind = rng.choice(ins.COMM_KINDS)
    if kind != "none":
        root.set_commissions(ins.Comm(kind))
    kw = {}
    spread = rng.random() < 0.3
    if spread:
        kw["bidoffer"] = pd.DataFrame(rs.uniform(0, 0.004, size=prices.shape) * prices, index=dts, columns=tickers)
    cap = rng.choice([1e6, 1e5, 3e4])
    root.setup(data, **kw)
    root.update(dts[0])
    root.adjust(cap)
    root.update(dts[0])
    names = tickers + (["sub"] if nested else [])
    prior = rng.choice(["flat", "some", "all", "short"])
    use_cash = rng.random() < 0.45
    cnt = {}
    sig = [prior, nested, integer, kind, spread, use_cash]
    sample = {"tickers": tickers, "nested": nested, "integer": integer, "comm": kind, "spread": spread, "prior": prior, "capital": cap}
    try:
        if prior != "flat":
            for n in (names if prior == "all" else rng.sample(names, rng.randint(1, len(names)))):
                w = rng.uniform(0.05, 0.9 / len(names)) * (-1 if (prior == "short" and rng.random() < 0.5 and n != "sub") else 1)
                root.rebalance(w, n)
            if nested and "sub" in root.children and root["sub"].value != 0:
                sub = root["sub"]
                for n in list(sub._lazy_children.keys())[:2]:
                    sub.rebalance(rng.uniform(0.2, 0.5), n)
        traded_any = False
        for step in range(rng.randint(1, 3)):
            root.update(dts[1 + step])
            tg = rng.sample(names, rng.randint(1, len(names))) if rng.random() > 0.1 else []
            ws = rs.dirichlet(np.ones(len(tg))) * rng.uniform(0.3, 1.0) if tg else []
            if tg and rng.random() < 0.3 and tg[0] != "sub":
                ws[0] = -ws[0]
            if tg and rng.random() < 0.1:
                ws[-1] = 0.0     # an explicit zero weight closes the child
            targets = dict(zip(tg, [float(x) for x in ws]))
            as_series = rng.random() < 0.15
            root.temp = {"weights": (pd.Series(targets, dtype=float) if as_series else dict(targets))}
            if not tg:
                common.bump(cnt, "empty_target_calls")
            cash = 0.0
            if use_cash:
                cash = rng.uniform(0.05, 0.5)
                root.temp["cash"] = cash
                common.bump(cnt, "cash_fraction_calls")
            V0 = root.value
            had_pos = {n: (root.children[n].value != 0 if isinstance(root.children.get(n), StrategyBase) else root.children[n].position != 0) for n in names if n in root.children}
            mark = len(ins.EV)
            ok = algos.Rebalance()(root)
            costs, ntr = call_costs(ins.EV[mark:], root, kind)
            traded_any = traded_any or ntr > 0
            common.bump(cnt, "rebalance_calls")
            w = {"case_seed": cs, "step": step, "targets": targets, "cash": cash, "V0": V0, "costs": costs, "trades": ntr, "setup": sample}
            if not ok:
                return common.result(common.VIOL, sig=sig, nt=True, cnt=cnt, mech="c06_returned_false", witness=w)
            exact = (not integer) and costs == 0.0
            for n in names:
                c = root.children.get(n)
                if n in targets:
                    T = (1 - cash) * targets[n] * V0
                    if c is None:
                        if T == 0:
                            continue      # a zero target for a child that never existed: nothing to do
                        return common.result(common.VIOL, sig=sig, nt=True, cnt=cnt, mech="c06_target_missed", witness=dict(w, child=n, what="target child never created"))
                    v = c.value
                    common.bump(cnt, "target_evals")
                    if exact:
                        common.bump(cnt, "exact_evals")
                        tol = 1e-9 * (1 + abs(T) + abs(V0))
                    elif isinstance(c, SecurityBase):
                        tol = (unit_cost(c, kind) if integer else 0.0) + 2 * costs + 1e-6 * (1 + abs(T))
                    else:
                        slack = sum(unit_cost(x, kind) for x in c.members if isinstance(x, SecurityBase)) if integer else 0.0
                        tol = slack + 2 * costs + 1e-6 * (1 + abs(T))
                    if not abs(v - T) <= tol:
                        return common.result(common.VIOL, sig=sig, nt=True, cnt=cnt, mech="c06_target_missed",
                                             witness=dict(w, child=n, kind=type(c).__name__, value=v, target_value=T, tolerance=tol, weight=c.weight))
                elif c is not None and had_pos.get(n):
                    common.bump(cnt, "closed_evals")
                    if isinstance(c, SecurityBase):
                        if c.position != 0:
                            return common.result(common.VIOL, sig=sig, nt=True, cnt=cnt, mech="c06_not_closed", witness=dict(w, child=n, position=c.position))
                    else:
                        open_ = {k: x.position for k, x in c.children.items() if x.position != 0}
                        if abs(c.value) > 1e-9 * (1 + abs(V0)) or open_:
                            return common.result(common.VIOL, sig=sig, nt=True, cnt=cnt, mech="c06_not_closed", witness=dict(w, child=n, value=c.value, open_positions=open_))
            # remainder in cash
            tot = root.capital + sum(c.value for c in root.children.values())
            if not abs(tot - root.value) <= 1e-9 * (1 + ins.gross(root)):
                return common.result(common.VIOL, sig=sig, nt=True, cnt=cnt, mech="c06_cash_remainder", witness=w)
    except ZeroDivisionError:
        return common.result(common.OOD, sig=sig, why="zero base")
    except Exception as e:
        if common.is_guard_exc(e):
            return common.result(common.OOD, sig=sig, cnt=cnt, why="sizing guard")
        return common.result(common.VIOL, sig=sig, nt=True, cnt=cnt, mech="c06_raises", witness={"case_seed": cs, "exception": "%s: %s" % (type(e).__name__, str(e)[:160]), "setup": sample})
    return common.result(common.HELD, sig=sig + [len(tg)], nt=traded_any, cnt=cnt, sample=sample)


def case_sub(cs):
    rng = random.Random(cs)
    rs = np.random.RandomState(cs % (2 ** 32))
    ins.install()
    ins.reset()
    cols = ["t%d" % i for i in range(3)]
    dts = pd.date_range("2020-01-01", periods=3, freq="B")
    data = pd.DataFrame(100 * np.exp(np.cumsum(rs.randn(3, 3) * 0.02, axis=0)), index=dts, columns=cols)
    ch = Strategy("ch", [], children=cols)
    root = Strategy("r", [], children=[ch, "t0"])
    integer = rng.random() < 0.5
    root.use_integer_positions(integer)
    root.setup(data)
    root.update(dts[0])
    root.adjust(1e6)
    root.update(dts[0])
    ch = root["ch"]
    root.rebalance(0.4, "ch")
    for c in cols:
        ch.rebalance(rng.uniform(0.1, 0.3) * rng.choice([1, 1, -1]), c)
    root.update(dts[1])
    wbefore = {c.full_name: c.weight for c in ch.children.values()}
    tw = rng.uniform(0.2, 0.8)
    root.temp = {"weights": {"ch": tw, "t0": 0.1}}
    vch = ch.value
    V = root.value
    mark = len(ins.EV)
    algos.Rebalance()(root)
    amount = tw * V - vch
    cnt = {}
    got = {}
    for e in ins.EV[mark:]:
        if e["k"] == "alloc" and e["sec"].parent is ch:
            got.setdefault(e["sec"].full_name, []).append(e["amount"])
    for name, wb in wbefore.items():
        if wb == 0:
            continue
        exp = amount * wb
        common.bump(cnt, "sub_spread_evals")
        if abs(exp) <= 1e-9:
            continue
        amts = got.get(name, [])
        if len(amts) != 1 or not abs(amts[0] - exp) <= 1e-9 * (1 + abs(exp) + abs(amount)):
            return common.result(common.VIOL, sig=["sub", integer], nt=True, cnt=cnt, mech="c06_sub_spread",
                                 witness={"case_seed": cs, "child": name, "allocated": amts, "expected": exp, "amount_to_sub": amount, "weight_at_entry": wb})
    return common.result(common.HELD, sig=["sub", integer, cs % 500], nt=True, cnt=cnt, sample={"sub_target_weight": tw, "weights_at_entry": wbefore})


def case_rot(cs):
    rng = random.Random(cs)
    rs = np.random.RandomState(cs % (2 ** 32))
    ins.install()
    ins.reset()
    n = rng.randint(2, 4)
    cols = ["t%d" % i for i in range(n)]
    N = rng.randint(2, 6)
    dts = pd.date_range("2020-01-01", periods=N + 4, freq="B")
    flat = rng.random() < 0.5
    px = np.tile(rs.uniform(20, 200, size=n), (N + 4, 1)) if flat else 100 * np.exp(np.cumsum(rs.randn(N + 4, n) * 0.02, axis=0))
    data = pd.DataFrame(px, index=dts, columns=cols)
    s = Strategy("s", [])
    s.use_integer_positions(False)
    s.setup(data)
    s.update(dts[0])
    s.adjust(1e6)
    s.update(dts[0])
    for c in rng.sample(cols, rng.randint(0, n)):
        s.rebalance(rng.uniform(0.05, 0.3), c)
    s.update(dts[0])
    W = dict(zip(cols, [float(x) for x in rs.dirichlet(np.ones(n)) * rng.uniform(0.5, 1)]))
    if rng.random() < 0.3:
        W[cols[0]] = -W[cols[0]] * 0.5
    w0 = {c: (s.children[c].weight if c in s.children else 0.0) for c in cols}
    a = algos.RebalanceOverTime(N)
    cnt = {}
    sig = ["rot", N, flat, n]
    for k in range(1, N + 1):
        s.update(dts[k])
        s.temp = {}
        if k == 1:
            s.temp["weights"] = dict(W)
        a(s)
        common.bump(cnt, "rot_steps")
        if flat:
            for c in cols:
                exp = w0[c] + k * (W[c] - w0[c]) / N
                got = s.children[c].weight if c in s.children else 0.0
                if not abs(got - exp) <= 1e-9:
                    return common.result(common.VIOL, sig=sig, nt=True, cnt=cnt, mech="c06_rot_step",
                                         witness={"case_seed": cs, "step": k, "of": N, "child": c, "weight": got, "expected": exp})
    for c in cols:
        got = s.children[c].weight
        if not abs(got - W[c]) <= 1e-9:
            return common.result(common.VIOL, sig=sig, nt=True, cnt=cnt, mech="c06_rot_final", witness={"case_seed": cs, "child": c, "weight": got, "target": W[c], "flat_prices": flat, "n": N})
    if a._weights is not None:
        return common.result(common.VIOL, sig=sig, nt=True, cnt=cnt, mech="c06_rot_still_armed", witness={"case_seed": cs, "n": N})
    # once disarmed a further call must not trade
    s.update(dts[N + 1])
    s.temp = {}
    mark = len(ins.EV)
    a(s)
    if any(e["k"] == "trade" for e in ins.EV[mark:]):
        return common.result(common.VIOL, sig=sig, nt=True, cnt=cnt, mech="c06_rot_still_armed", witness={"case_seed": cs, "n": N, "what": "traded after the n-th step"})
    return common.result(common.HELD, sig=sig, nt=True, cnt=cnt, sample={"n": N, "targets": W, "start_weights": w0, "flat_prices": flat})


class InRunCtx(mon2.SharedCtx):
    """post-condition around every Rebalance call executed inside generated backtests (real trees and paper shadows)"""

    def __init__(self, kind, integer):
        self.kind = kind
        self.integer = integer
        self.viol = None
        self.calls = 0
        self.evals = 0
        self.entry = {}

    def before(self, probe, target):
        if type(probe.algo).__name__ != "Rebalance" or self.viol is not None:
            return
        tw = target.temp.get("weights")
        if tw is None or target.fixed_income:
            self.entry.pop(id(probe), None)
            return
        try:
            items = dict(tw.items())
        except Exception:
            self.entry.pop(id(probe), None)
            return
        if any(not np.isfinite(float(v)) for v in items.values()):
            self.entry.pop(id(probe), None)      # NaN weights out of a degenerate statistical window: outside "valid weights"
            return
        V0 = target.value
        had = {n: ((c.value != 0) if isinstance(c, StrategyBase) else (c.position != 0)) for n, c in target.children.items()}
        self.entry[id(probe)] = (items, float(target.temp.get("cash", 0.0)), V0, had, len(ins.EV))

    def after(self, probe, target, result):
        e = self.entry.pop(id(probe), None)
        if e is None or self.viol is not None:
            return
        items, cash, V0, had, mark = e
        top = ins.top(target)
        costs, ntr = call_costs(ins.EV[mark:], top, self.kind)
        self.calls += 1
        w = {"node": target.full_name, "now": str(target.now), "targets": items, "cash": cash, "V0": V0, "costs": costs, "trades": ntr,
             "tree": "real" if not getattr(top, "_is_paper_for_report", False) else "paper"}
        if abs(V0) < 1e-6:
            return
        exact = (not self.integer) and costs == 0.0
        for n, wt in items.items():
            c = target.children.get(n)
            T = (1 - cash) * float(wt) * V0
            if c is None:
                if abs(T) > 1e-9 * (1 + abs(V0)) and wt != 0:
                    self.viol = ("c06_target_missed", dict(w, child=n, what="target child never created"))
                    return
                continue
            self.evals += 1
            if isinstance(c, SecurityBase):
                px = c.price
                if not (px == px) or px == 0:
                    continue
                tol = 1e-9 * (1 + abs(T) + abs(V0)) if exact else ((unit_cost(c, self.kind) if self.integer else 0.0) + 2 * costs + 1e-6 * (1 + abs(T)))
            else:
                slack = sum(unit_cost(x, self.kind) for x in c.members if isinstance(x, SecurityBase)) if self.integer else 0.0
                tol = 1e-9 * (1 + abs(T) + abs(V0)) if exact else (slack + 2 * costs + 1e-6 * (1 + abs(T)))
            v = c.value
            if not abs(v - T) <= tol:
                self.viol = ("c06_target_missed", dict(w, child=n, kind=type(c).__name__, value=v, target_value=T, tolerance=tol))
                return
        for n, c in target.children.items():
            if n in items or not had.get(n):
                continue
            if isinstance(c, SecurityBase):
                if c.position != 0 and c.price != 0:
                    self.viol = ("c06_not_closed", dict(w, child=n, position=c.position))
                    return
            elif abs(c.value) > 1e-9 * (1 + abs(V0)):
                self.viol = ("c06_not_closed", dict(w, child=n, value=c.value))
                return


def inrun_oracle(run, cnt, res, ctx):
    common.bump(cnt, "inrun_calls", ctx.calls)
    common.bump(cnt, "inrun_target_evals", ctx.evals)
    return ctx.viol


def case_inrun(cs):
    spec = w2.gen(cs, solvers=False, pte=False, cash_reserve=0.35)
    return _w2case.run_w2(cs, [inrun_oracle], spec=spec, setup=lambda: InRunCtx(spec["comm"], spec["integer"]))


class FIRebalance(bt.Algo):
    """the stock Rebalance inside a fixed-income backtest, with its post-condition: targeted children carry notional w x N (N = the notional
    set for the date), every other child that had an open position is closed - whatever it is marked at - hedges apart (they carry no
    notional and are outside the weights workflow by design)"""

    def __init__(self, spec, cnt):
        super(FIRebalance, self).__init__()
        self.inner = algos.Rebalance()
        self.spec = spec
        self.cnt = cnt
        self.viol = None

    def __deepcopy__(self, memo):
        return self

    def __call__(self, target):
        from bt.core import HedgeSecurity, CouponPayingHedgeSecurity
        tw = target.temp.get("weights")
        if tw is None or self.viol is not None or not target.fixed_income:
            return self.inner(target)
        items = {k: float(v) for k, v in tw.items()}
        base = target.temp.get("notional_value", None)
        if base is None:
            base = target.notional_value
        had = {n: c.position != 0 for n, c in target.children.items()}
        mark = len(ins.EV)
        out = self.inner(target)
        kind = self.spec["comm"]
        costs, ntr = call_costs(ins.EV[mark:], ins.top(target), kind)
        common.bump(self.cnt, "fi_rebalance_calls")
        w = {"now": str(target.now), "targets": items, "notional_base": base, "costs": costs, "trades": ntr}
        for n, wt in items.items():
            c = target.children.get(n)
            T = wt * base
            if c is None:
                if abs(T) > 1e-9:
                    self.viol = ("c06_target_missed", dict(w, child=n, what="target child never created"))
                    return out
                continue
            common.bump(self.cnt, "fi_target_evals")
            if c.fixed_income:
                tol = 1e-9 * (1 + abs(T) + abs(base))
            else:
                px = c.price
                if not (px == px) or px == 0:
                    continue
                tol = (unit_cost(c, kind) if self.spec["integer"] else 0.0) + 2 * costs + 1e-6 * (1 + abs(T))
            if not abs(c.notional_value - T) <= tol:
                self.viol = ("c06_target_missed", dict(w, child=n, kind=type(c).__name__, notional=c.notional_value, target_notional=T, tolerance=tol))
                return out
        for n, c in target.children.items():
            if n in items or not had.get(n) or isinstance(c, (HedgeSecurity, CouponPayingHedgeSecurity)):
                continue
            if not c.fixed_income and c.price == 0:
                continue       # a dead stock is left alone by design
            common.bump(self.cnt, "fi_closed_evals")
            if c.position != 0:
                self.viol = ("c06_not_closed", dict(w, child=n, kind=type(c).__name__, position=c.position, price=c.price, notional=c.notional_value))
                return out
        return out


def case_fi(cs):
    from .. import w5
    ins.install()
    ins.reset()
    spec = w5.gen(cs)
    sig = ["w5"] + w5.signature(spec)
    sample = w5.sample_of(spec)
    cnt = {}
    mon = FIRebalance(spec, cnt)
    run = w5.run_backtest(spec, rebalance=mon)
    if run.exc is not None:
        e = run.exc
        if isinstance(e, ZeroDivisionError) or common.is_guard_exc(e):
            return common.result(common.OOD, sig=sig, why="zero notional with pnl / sizing guard", sample=sample)
        return common.result(common.INC, sig=sig, why="bt raised %s: %s" % (type(e).__name__, str(e)[:100]), sample=sample)
    if mon.viol:
        return common.result(common.VIOL, sig=sig, nt=True, cnt=cnt, mech=mon.viol[0], witness=dict(mon.viol[1], case_seed=cs, kinds=dict(zip(spec["names"], spec["kinds"]))), sample=sample)
    return common.result(common.HELD, sig=sig, nt=cnt.get("fi_rebalance_calls", 0) >= 1, cnt=cnt, sample=sample)


def run_case(unit, cs, idx, build, params):
    if unit == "fi":
        return case_fi(cs)
    if unit == "inrun":
        return case_inrun(cs)
    if unit == "sub":
        return case_sub(cs)
    if unit == "rot":
        return case_rot(cs)
    return case_rebalance(cs)
