"""C10 - well-formed runs complete with finite numbers (and every report works); enumerated ill-formed states raise."""
import contextlib
import io
import random
import sys

import numpy as np
import pandas as pd

import bt
from bt import algos
from bt.core import CouponPayingSecurity, FixedIncomeStrategy, Security, SecurityBase, Strategy, StrategyBase

from .. import common, instrument as ins, mon1, w1, w2, w5
from . import _w2case

ID = "C10"
KNOWN_CEILING = {'k1_guard': 0.01, 'k13_ffn_cagr_zero_length_window': 0.02}   # share of all evaluations a known finding may reach before it counts as a violation again
LEVEL = "fault_enumeration"
RULE = ("C10a: every generated well-formed backtest (W2 grammar over the stock algos; flat and nested; all cost models; both position modes) must "
        "finish bt.run and all thirteen report accessors, and every recorded number must be finite (input prices may be NaN only where the position "
        "is 0); every W1 operation sequence inside the guards must not raise. C10b: eight enumerated ill-formed classes, each planted once per case "
        "in a randomly shaped scenario (tree depth, date, position, call path); each must raise the documented error type at the faulty date. "
        "Distinct = (stack/tree signature) for C10a, (class, variant, depth, date) for C10b; non-trivial = >=1 trade (C10a) / fault reached (C10b).")
ASSUMPTIONS = ["decided under the library versions actually installed (recorded in the evidence); setup.py's open-ended range cannot be explored offline",
               "ffn solver non-convergence and NaN weights out of a degenerate statistical window are outside 'valid weights'"]

FAULTS = ["alloc_nan_price", "alloc_zero_price", "nan_price_open_position", "nan_coupon_open_position", "duplicate_columns", "zero_base_mv", "zero_base_fi",
          "fi_under_mv", "custom_price_without_bidoffer"]


def env_info():
    import ffn
    import pandas
    import numpy

    return {"python": sys.version.split()[0], "pandas": pandas.__version__, "numpy": numpy.__version__, "ffn": getattr(ffn, "__version__", "?"),
            "bt": getattr(bt, "__version__", "?")}


def plan(tier):
    q = tier == "quick"
    return [dict(unit="w2", n=200 if q else 2000, builds=["py", "so"], case_timeout=180),
            dict(unit="w1", n=400 if q else 6000, builds=["py", "so"], case_timeout=60),
            dict(unit="w5", n=120 if q else 1600, builds=["py", "so"], case_timeout=120),
            dict(unit="calendars", n=200 if q else 2400, builds=["py"], case_timeout=120),
            dict(unit="faults", n=(len(FAULTS) * 110) if q else (len(FAULTS) * 600), builds=["py", "so"], case_timeout=60)]


def floors(tier):
    c = {"reports_ok": 2000, "finite_cells": 100000, "w1_ops": 4000, "fi_runs_completed": 150, "calendar_runs": 150}
    for f in FAULTS:
        c["fault_" + f] = 200
    return {"min_decided": 1500, "counters": c, "max_undecided_frac": 0.2}


REPORTS = [("stats", lambda res, t: res.stats), ("prices", lambda res, t: res.prices), ("display", lambda res, t: res.display()),
           ("get_transactions", lambda res, t: res.get_transactions()), ("get_weights", lambda res, t: res.get_weights()),
           ("get_security_weights", lambda res, t: res.get_security_weights()), ("weights", lambda res, t: t.weights),
           ("security_weights", lambda res, t: t.security_weights), ("positions", lambda res, t: t.positions),
           ("herfindahl_index", lambda res, t: t.herfindahl_index), ("turnover", lambda res, t: t.turnover),
           ("lookback_returns", lambda res, t: res.lookback_returns), ("display_lookback_returns", lambda res, t: res.display_lookback_returns())]


def nonfinite(root):
    for who, r in mon1.trees(root):
        for m in r.members:
            for c in m.data.columns:
                a = m.data[c].to_numpy(dtype=float, na_value=np.nan)
                if c == "price" and isinstance(m, SecurityBase):
                    pos = m.data["position"].to_numpy(dtype=float, na_value=np.nan)
                    bad = ~np.isfinite(a) & (np.nan_to_num(pos) != 0)
                else:
                    bad = ~np.isfinite(a)
                if bad.any():
                    return {"tree": who, "node": m.full_name, "column": c, "row": int(np.argmax(bad)), "value": float(a[np.argmax(bad)])}
            if isinstance(m, SecurityBase) and "price" not in m.data.columns:
                a = np.asarray(m._prices.to_numpy(dtype=float, na_value=np.nan))
                pos = m.data["position"].to_numpy(dtype=float, na_value=np.nan)
                bad = ~np.isfinite(a) & (np.nan_to_num(pos) != 0)
                if bad.any():
                    return {"tree": who, "node": m.full_name, "column": "input price", "row": int(np.argmax(bad))}
    return None


def case_w2(cs):
    ins.install()
    ins.reset()
    spec = w2.gen(cs)
    run = w2.run(spec)
    sig = w2.signature(spec)
    sample = w2.sample_of(spec)
    cnt = {}
    if run.exc is not None:
        e = run.exc
        v, why = _w2case.classify_exc(e, spec)
        w = {"exception": "%s: %s" % (type(e).__name__, str(e)[:200]), "desc": spec["desc"], "case_seed": cs}
        if common.is_guard_exc(e):
            return common.result(common.VIOL, sig=sig, nt=True, mech="k1_guard", witness=w, sample=sample)
        if v == common.OOD:
            return common.result(common.OOD, sig=sig, why=why, sample=sample)
        return common.result(common.VIOL, sig=sig, nt=True, mech="c10_run_raises", witness=w, sample=sample)
    t = run.bt
    try:
        with contextlib.redirect_stdout(io.StringIO()), contextlib.redirect_stderr(io.StringIO()):
            res = bt.backtest.Result(t)
    except Exception as e:
        return common.result(common.VIOL, sig=sig, nt=True, mech="c10_report_raises", witness={"accessor": "Result()", "exception": "%s: %s" % (type(e).__name__, str(e)[:200]),
                                                                                         "desc": spec["desc"], "case_seed": cs}, sample=sample)
    for name, fn in REPORTS:
        try:
            with contextlib.redirect_stdout(io.StringIO()), contextlib.redirect_stderr(io.StringIO()):
                fn(res, t)
            common.bump(cnt, "reports_ok")
        except Exception as e:
            return common.result(common.VIOL, sig=sig, nt=True, cnt=cnt, mech="c10_report_raises",
                                 witness={"accessor": name, "exception": "%s: %s" % (type(e).__name__, str(e)[:200]), "desc": spec["desc"], "case_seed": cs}, sample=sample)
    bad = nonfinite(run.root)
    common.bump(cnt, "finite_cells", sum(m.data.size for _, r in mon1.trees(run.root) for m in r.members))
    ntr = len([e for e in run.events if e["k"] == "trade"])
    common.bump(cnt, "trades", ntr)
    if bad:
        return common.result(common.VIOL, sig=sig, nt=True, cnt=cnt, mech="c10_nonfinite", witness=dict(bad, desc=spec["desc"], case_seed=cs), sample=sample)
    return common.result(common.HELD, sig=sig, nt=ntr >= 1, cnt=cnt, sample=sample)


def case_w1(cs):
    spec = w1.gen(cs)
    drv = w1.Driver(spec, [], guard_ood=False)
    sig = w1.signature(spec)
    try:
        drv.run()
    except w1.Stop as s:
        cnt = {"w1_ops": drv.ops_done}
        if s.verdict == common.OOD:
            return common.result(common.OOD, sig=sig, cnt=cnt, why=s.why)
        w = {"exception": s.why, "ops_done": drv.ops_done, "case_seed": cs, "tree": spec["tree"], "integer": spec["integer"], "comm": spec["comm"]}
        if s.exc is not None and common.is_guard_exc(s.exc):
            return common.result(common.VIOL, sig=sig, nt=True, cnt=cnt, mech="k1_guard", witness=w)
        return common.result(common.VIOL, sig=sig, nt=True, cnt=cnt, mech="c10_op_raises", witness=w)
    bad = nonfinite(drv.root)
    cnt = {"w1_ops": drv.ops_done, "trades": drv.trades}
    if bad:
        return common.result(common.VIOL, sig=sig, nt=True, cnt=cnt, mech="c10_nonfinite", witness=dict(bad, case_seed=cs))
    return common.result(common.HELD, sig=sig, nt=drv.trades >= 1, cnt=cnt, sample={"tree": spec["tree"], "n_dates": len(spec["ops"])})


def case_w5(cs):
    """fixed-income backtests (coupons, costs, hedges, zero marks, notional schedules incl. 0) complete, report and stay finite"""
    ins.reset()
    spec = w5.gen(cs)
    run = w5.run_backtest(spec)
    sig = ["w5"] + w5.signature(spec)
    cnt = {}
    if run.exc is not None:
        e = run.exc
        w = {"exception": "%s: %s" % (type(e).__name__, str(e)[:200]), "kinds": spec["kinds"], "case_seed": cs, "fixed_income": True}
        if common.is_guard_exc(e):
            return common.result(common.VIOL, sig=sig, nt=True, mech="k1_guard", witness=w)
        if isinstance(e, ZeroDivisionError):
            return common.result(common.OOD, sig=sig, why="zero notional with pnl (ill-formed by design)")
        return common.result(common.VIOL, sig=sig, nt=True, mech="c10_run_raises", witness=w)
    t = run.bt
    common.bump(cnt, "fi_runs_completed")
    try:
        with contextlib.redirect_stdout(io.StringIO()), contextlib.redirect_stderr(io.StringIO()):
            res = bt.backtest.Result(t)
            for name, fn in REPORTS:
                fn(res, t)
                common.bump(cnt, "reports_ok")
            name = "RenormalizedFixedIncomeResult"
            r2 = bt.backtest.RenormalizedFixedIncomeResult(float(np.mean(spec["nv"])) or 1e5, t)
            r2.stats
            r2.prices
            common.bump(cnt, "reports_ok")
    except Exception as e:
        return common.result(common.VIOL, sig=sig, nt=True, cnt=cnt, mech="c10_report_raises",
                             witness={"accessor": name, "exception": "%s: %s" % (type(e).__name__, str(e)[:200]), "kinds": spec["kinds"], "case_seed": cs})
    bad = nonfinite(run.root)
    common.bump(cnt, "finite_cells", sum(m.data.size for m in run.root.members))
    if bad:
        return common.result(common.VIOL, sig=sig, nt=True, cnt=cnt, mech="c10_nonfinite", witness=dict(bad, kinds=spec["kinds"], case_seed=cs))
    ntr = len([e for e in run.events if e["k"] == "trade"])
    return common.result(common.HELD, sig=sig, nt=ntr >= 1, cnt=cnt, sample=w5.sample_of(spec))


def case_calendar(cs):
    """increasing unique dates of any spacing (intraday, sparse multi-year, month/quarter/year stamps): a plain backtest completes and reports"""
    from . import c12

    rng = random.Random(cs)
    rs = np.random.RandomState(cs % (2 ** 32))
    ikind, idx = c12.gen_index(rng)
    data = pd.DataFrame(100 * np.exp(np.cumsum(rs.randn(len(idx), 2) * 0.02, axis=0)), index=idx, columns=["a", "b"])
    sched = rng.choice([algos.RunDaily, algos.RunWeekly, algos.RunMonthly, algos.RunQuarterly, algos.RunYearly, algos.RunOnce])()
    s = Strategy("s", [sched, algos.SelectAll(), algos.WeighEqually(), algos.Rebalance()])
    t = bt.Backtest(s, data, integer_positions=rng.random() < 0.5)
    sig = ["calendar", ikind, type(sched).__name__]
    cnt = {"calendar_runs": 1}
    w = {"index_kind": ikind, "start": str(idx[0]), "end": str(idx[-1]), "n": len(idx), "case_seed": cs}
    try:
        with contextlib.redirect_stdout(io.StringIO()), contextlib.redirect_stderr(io.StringIO()):
            t.run()
            res = bt.backtest.Result(t)
            for name, fn in REPORTS:
                fn(res, t)
    except ZeroDivisionError as e:
        import traceback

        tb = traceback.format_exc()
        if "calc_cagr" in tb or "year_frac" in tb:
            gap = max((idx[i] - idx[i - 1]).days for i in range(1, len(idx)))
            return common.result(common.VIOL, sig=sig, nt=True, cnt=cnt, mech="k13_ffn_cagr_zero_length_window", witness=dict(w, largest_gap_days=gap, last_gap_days=(idx[-1] - idx[-2]).days))
        return common.result(common.VIOL, sig=sig, nt=True, cnt=cnt, mech="c10_run_raises", witness=dict(w, exception=str(e)[:160]))
    except Exception as e:
        if common.is_guard_exc(e):
            return common.result(common.VIOL, sig=sig, nt=True, cnt=cnt, mech="k1_guard", witness=dict(w, exception=str(e)[:160]))
        return common.result(common.VIOL, sig=sig, nt=True, cnt=cnt, mech="c10_run_raises", witness=dict(w, exception="%s: %s" % (type(e).__name__, str(e)[:160])))
    bad = nonfinite(t.strategy)
    if bad:
        return common.result(common.VIOL, sig=sig, nt=True, cnt=cnt, mech="c10_nonfinite", witness=dict(w, **bad))
    return common.result(common.HELD, sig=sig, nt=True, cnt=cnt, sample=w)


# ------------------------------------------------------------------ C10b
def _data(rng, rs, nd, tk):
    dts = pd.date_range("2020-01-01", periods=nd, freq="B")
    return dts, pd.DataFrame(100 * np.exp(np.cumsum(rs.randn(nd, len(tk)) * 0.02, axis=0)), index=dts, columns=tk)


def _tree(rng, tk, leafcls=None, depth=None):
    """strategy tree of random depth; returns (root template, path to the strategy that owns ticker tk[0])"""
    depth = rng.randint(0, 2) if depth is None else depth
    kids = [(leafcls(t) if leafcls else (t if rng.random() < 0.5 else Security(t))) for t in tk]
    node = Strategy("n%d" % depth, [], children=kids)
    path = []
    for d in range(depth - 1, -1, -1):
        path.insert(0, node.name)
        node = Strategy("n%d" % d, [], children=[node])
    return node, path, depth


def _owner(root, path):
    n = root
    for p in path:
        n = n[p]
    return n


FAMILY = {"hits": 0, "misses": 0}


def expect(fn, types, frag):
    """the statement asks for an error, not for particular wording: any exception counts as a refusal; whether type and message
    family are the documented ones is recorded in the evidence only"""
    try:
        fn()
    except Exception as e:
        FAMILY["hits" if (isinstance(e, types) and frag in str(e)) else "misses"] += 1
        return True, "%s: %s" % (type(e).__name__, str(e)[:120])
    return False, "no exception"


def case_fault(cs, idx):
    rng = random.Random(cs)
    rs = np.random.RandomState(cs % (2 ** 32))
    f = FAULTS[idx % len(FAULTS)]
    nd = rng.randint(4, 9)
    tk = ["a", "b", "c"][: rng.randint(1, 3)]
    dts, data = _data(rng, rs, nd, tk)
    k = rng.randint(1, nd - 1)          # fault date index
    integer = rng.random() < 0.5
    var = None
    cnt = {}
    w = {"class": f, "fault_date_index": k, "n_dates": nd, "integer": integer, "case_seed": cs}

    def funded(root, path):
        root.use_integer_positions(integer)
        return root

    if f in ("alloc_nan_price", "alloc_zero_price"):
        bad = np.nan if f == "alloc_nan_price" else 0.0
        data.iloc[k, 0] = bad
        var = rng.choice(["allocate", "rebalance", "sec_allocate", "backtest"])
        if var == "backtest":
            sel = algos.SelectAll(include_no_data=True, include_negative=True) if rng.random() < 0.5 else algos.SelectThese(list(tk), include_no_data=True)
            s = Strategy("s", [algos.RunOnDate(dts[k]), sel, algos.WeighEqually(), algos.Rebalance()])
            t = bt.Backtest(s, data, integer_positions=integer)
            ok, got = expect(t.run, Exception, "Cannot allocate capital to")
            reached = t.strategy.now == dts[k]
        else:
            root, path, depth = _tree(rng, tk)
            w["depth"] = depth
            root.use_integer_positions(integer)
            root.setup(data)
            for i in range(k + 1):
                root.update(dts[i])
                if i == 0:
                    root.adjust(1e6)
                    n = root
                    for p in path:
                        n.allocate(5e5, child=p)
                        n = n[p]
                    root.update(dts[0])
            own = _owner(root, path)
            if var == "allocate":
                ok, got = expect(lambda: own.allocate(1e4, child="a"), Exception, "Cannot allocate capital to")
            elif var == "rebalance":
                ok, got = expect(lambda: own.rebalance(0.3, "a"), Exception, "Cannot allocate capital to")
            else:
                own._create_child_if_needed("a")
                ok, got = expect(lambda: own["a"].allocate(-5e3), Exception, "Cannot allocate capital to")
            reached = True
            if ok and "a" in own.children and own["a"].position != 0:
                ok, got = False, "position opened at a bad price: %s" % own["a"].position
    elif f == "nan_price_open_position":
        data.iloc[k, 0] = np.nan
        var = rng.choice(["backtest", "ops", "transact_flat", "fi_rebalance_flat", "zero_mark_then_nan"])
        if var == "zero_mark_then_nan" and nd >= 6:
            # held at a price of exactly 0 for two dates (value and weight 0, position open), then the price goes missing
            z0 = rng.randint(1, nd - 4)
            data.iloc[k, 0] = float(data.iloc[0, 0])
            data.iloc[z0: z0 + 2, 0] = 0.0
            data.iloc[z0 + 2, 0] = np.nan
            root = Strategy("s", [], children=[Security(t, multiplier=rng.choice([1, 5])) for t in tk])
            root.use_integer_positions(integer)
            root.setup(data)
            root.update(dts[0])
            root.adjust(1e6)
            root.update(dts[0])
            root.transact(rng.choice([2500, -300]), child="a")
            root.update(dts[0])

            def go2():
                for j in range(1, nd):
                    root.update(dts[j])
                    root.update(dts[j])

            ok, got = expect(go2, Exception, "latest price is NaN")
            if ok and root.now != dts[z0 + 2]:
                ok, got = False, "raised on %s instead of the first missing-price date" % root.now
            reached = True
        elif var == "zero_mark_then_nan":
            var = "transact_flat"
        if var == "zero_mark_then_nan":
            pass
        elif var in ("transact_flat", "fi_rebalance_flat"):
            # a quantity-based trade opens a position in a flat security on a date whose price is missing (a one-day gap)
            from bt.core import FixedIncomeSecurity

            fi = var == "fi_rebalance_flat"
            kids = [(FixedIncomeSecurity(t) if fi else Security(t, multiplier=rng.choice([1, 5]))) for t in tk]
            root = (FixedIncomeStrategy("s", [], children=kids) if fi else Strategy("s", [], children=kids))
            root.use_integer_positions(integer)
            root.setup(data)
            for i in range(k + 1):
                root.update(dts[i])
                if i == 0 and not fi:
                    root.adjust(1e6)
                    root.update(dts[0])

            def go():
                if fi:
                    root.rebalance(0.5, "a", base=1e5)
                else:
                    root.transact(rng.choice([-50, 50]), child="a")
                root.update(dts[k])
                for j in range(k + 1, nd):
                    root.update(dts[j])
                bad = nonfinite(root)
                if bad:
                    raise AssertionError("completed with non-finite records: %s" % bad)

            try:
                go()
                ok, got = False, "no exception"
            except AssertionError as e:
                ok, got = False, str(e)[:160]
            except Exception as e:
                ok, got = True, "%s: %s" % (type(e).__name__, str(e)[:100])
            reached = True
        elif var == "backtest":
            s = Strategy("s", [algos.RunOnce(), algos.SelectAll(), algos.WeighEqually(), algos.Rebalance()], children=list(tk) if rng.random() < 0.5 else None)
            t = bt.Backtest(s, data, integer_positions=integer)
            ok, got = expect(t.run, Exception, "latest price is NaN")
            reached = t.strategy.now == dts[k]
        else:
            root, path, depth = _tree(rng, tk)
            w["depth"] = depth
            root.use_integer_positions(integer)
            root.setup(data)
            root.update(dts[0])
            root.adjust(1e6)
            n = root
            for p in path:
                n.allocate(5e5, child=p)
                n = n[p]
            own = _owner(root, path)
            own.allocate(rng.choice([1e4, -1e4]), child="a")
            reached = False
            ok, got = True, None
            for i in range(0, k):
                root.update(dts[i])
            ok, got = expect(lambda: root.update(dts[k]), Exception, "latest price is NaN")
            reached = True
    elif f == "nan_coupon_open_position":
        cp = pd.DataFrame(rs.uniform(0, 0.05, size=data.shape), index=dts, columns=tk)
        cp.iloc[k, 0] = np.nan
        var = rng.choice(["backtest", "ops", "swap_at_zero"])
        if var == "swap_at_zero" and len(tk) < 2:
            var = "ops"
        if var == "swap_at_zero":
            # a par swap (coupon-paying hedge) marked at exactly 0 on the trade date: open position, zero value, zero weight
            from bt.core import CouponPayingHedgeSecurity

            d2 = data.copy()
            d2.iloc[:, 0] = 0.0
            root = FixedIncomeStrategy("s", [], children=[CouponPayingHedgeSecurity(tk[0])] + [CouponPayingSecurity(t) for t in tk[1:]])
            root.use_integer_positions(integer)
            root.setup(d2, coupons=cp)
            root.update(dts[0])
            root.transact(rng.choice([-400, 250]), child="a")
            root.transact(1000, child=tk[1])        # a notional-bearing holding next to the hedge, so that carry has a base
            for i in range(0, k):
                root.update(dts[i])
            ok, got = expect(lambda: root.update(dts[k]), Exception, "latest coupon is NaN")
            reached = True
        elif var == "backtest":
            s = FixedIncomeStrategy("s", [algos.RunOnce(), algos.SelectAll(), algos.WeighEqually(), algos.SetNotional("nv"), algos.Rebalance()],
                                    children=[CouponPayingSecurity(t) for t in tk])
            t = bt.Backtest(s, data, integer_positions=integer, additional_data={"coupons": cp, "nv": pd.Series(1e5, index=dts)})
            ok, got = expect(t.run, Exception, "latest coupon is NaN")
            reached = t.strategy.now == dts[k]
        else:
            root = FixedIncomeStrategy("s", [], children=[CouponPayingSecurity(t) for t in tk])
            root.use_integer_positions(integer)
            root.setup(data, coupons=cp)
            root.update(dts[0])
            root.transact(rng.choice([100, -100]), child="a")
            for i in range(0, k):
                root.update(dts[i])
            ok, got = expect(lambda: root.update(dts[k]), Exception, "latest coupon is NaN")
            reached = True
    elif f == "duplicate_columns":
        dup = rng.choice(tk)
        d2 = pd.concat([data, data[[dup]] * rng.uniform(0.9, 1.1)], axis=1)
        if rng.random() < 0.5:
            d2 = d2[list(rng.sample(list(range(d2.shape[1])), d2.shape[1]))] if False else d2.iloc[:, ::-1]
        var = "construct"
        ok, got = expect(lambda: bt.Backtest(Strategy("s", []), d2), Exception, "duplicate column names")
        reached = True
    elif f == "zero_base_mv":
        var = rng.choice(["unfunded_trade", "unfunded_backtest", "sub_unfunded"])
        if var == "unfunded_backtest":
            s = Strategy("s", [algos.RunOnDate(dts[k]), algos.SelectAll(), algos.WeighEqually(), algos.Rebalance()])
            t = bt.Backtest(s, data, initial_capital=0.0, integer_positions=False, commissions=lambda q, p: 1.0)
            # with no capital nothing can be bought: value stays 0 on a zero base -> no error expected, and nothing recorded
            try:
                t.run()
                ok, got = (abs(t.strategy.values).max() == 0.0), "completed with value %s" % abs(t.strategy.values).max()
            except ZeroDivisionError as e:
                ok, got = True, "ZeroDivisionError"
            reached = True
        elif var == "unfunded_trade":
            root = Strategy("s", [], children=list(tk))
            root.use_integer_positions(integer)
            root.set_commissions(lambda q, p: 2.5)
            root.setup(data)
            for i in range(k):
                root.update(dts[i])
            root.update(dts[k])
            root.transact(10, child="a")
            ok, got = expect(lambda: root.update(dts[k]), ZeroDivisionError, "dividing by zero")
            reached = True
        else:
            sub = Strategy("sub", [], children=list(tk))
            root = Strategy("s", [], children=[sub])
            root.use_integer_positions(integer)
            root.set_commissions(lambda q, p: 2.5)
            root.setup(data)
            root.update(dts[0])
            root.adjust(1e6)
            for i in range(k + 1):
                root.update(dts[i])
            root["sub"].transact(10, child="a")
            ok, got = expect(lambda: root.update(dts[k]), ZeroDivisionError, "dividing by zero")
            reached = True
    elif f == "zero_base_fi":
        var = "hedge_only_pnl"
        from bt.core import HedgeSecurity

        root = FixedIncomeStrategy("s", [], children=[HedgeSecurity(t) for t in tk])
        root.use_integer_positions(integer)
        root.setup(data)
        root.update(dts[0])
        root.transact(100, child="a")
        ok, got = True, None
        try:
            for i in range(0, k + 1):
                root.update(dts[i])
            ok, got = False, "no exception although a zero-notional strategy had pnl"
        except ZeroDivisionError as e:
            ok, got = True, "ZeroDivisionError"
        reached = True
    elif f == "fi_under_mv":
        var = rng.choice(["direct", "nested", "backtest"])
        ch = FixedIncomeStrategy("fi", [], children=list(tk))
        if var == "nested":
            ch = FixedIncomeStrategy("fi", [], children=[FixedIncomeStrategy("fi2", [])])
            top = Strategy("s", [], children=[Strategy("mid", [], children=[ch])])
        else:
            top = Strategy("s", [], children=[ch])
        if var == "backtest":
            t = bt.Backtest(top, data)
            ok, got = expect(t.run, ValueError, "Cannot have fixed income strategy child")
        else:
            ok, got = expect(lambda: top.setup(data), ValueError, "Cannot have fixed income strategy child")
        reached = True
    else:
        var = rng.choice(["after_trade", "first_trade"])
        root, path, depth = _tree(rng, tk)
        w["depth"] = depth
        root.use_integer_positions(integer)
        root.setup(data)
        for i in range(k + 1):
            root.update(dts[i])
            if i == 0:
                root.adjust(1e6)
                n = root
                for p in path:
                    n.allocate(5e5, child=p)
                    n = n[p]
                root.update(dts[0])
        own = _owner(root, path)
        own._create_child_if_needed("a")
        if var == "after_trade":
            own["a"].transact(5)
        pos = own["a"].position
        cap = own.capital
        cpx = rng.choice([float(data["a"].iloc[k]) * 1.01, float(data["a"].iloc[k]) - 0.75, 0.0, 0, -1.5, np.float64(0.0), 1e-9])
        w["custom_price"] = repr(cpx)
        ok, got = expect(lambda: own["a"].transact(rng.choice([5, -5]), price=cpx), ValueError, "Cannot transact at custom prices")
        if ok and (own["a"].position != pos or own.capital != cap):
            ok, got = False, "refused trade left side effects"
        reached = True
    w.update(variant=var, outcome=got)
    if not reached:
        return common.result(common.INC, why="fault point not reached (%s)" % f)
    common.bump(cnt, "fault_" + f)
    common.bump(cnt, "documented_error_type_and_message", FAMILY["hits"])
    common.bump(cnt, "other_error_type_or_message", FAMILY["misses"])
    FAMILY["hits"] = FAMILY["misses"] = 0
    sig = [f, var, w.get("depth"), k, integer]
    if not ok:
        return common.result(common.VIOL, sig=sig, nt=True, cnt=cnt, mech="c10_fault_not_refused", witness=w)
    return common.result(common.HELD, sig=sig, nt=True, cnt=cnt, sample=w)


def run_case(unit, cs, idx, build, params):
    if unit == "w2":
        return case_w2(cs)
    if unit == "w1":
        return case_w1(cs)
    if unit == "w5":
        return case_w5(cs)
    if unit == "calendars":
        return case_calendar(cs)
    return case_fault(cs, idx)
