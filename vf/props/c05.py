"""C05 - SecurityBase.allocate respects the budget, costs included (W4 sizing sweep)."""
import math
import random

import numpy as np
import pandas as pd

from bt.core import Security, Strategy, StrategyBase

from .. import common, instrument as ins

ID = "C05"
KNOWN_CEILING = {'k1_guard': 0.002, 'k2_subunit_negative_noop': 0.06, 'k3_rounded_to_closeout': 0.03, 'k9_fee_charged_at_zero_quantity': 0.01}   # share of all evaluations a known finding may reach before it counts as a violation again
LEVEL = "exploration"
RULE = ("W4: one security under one strategy; sweep of price x multiplier x prior position (long/short/flat) x amount (random, sub-unit, exact "
        "multiples, exact close-out, zero) x spread x commission family x position mode, plus missing/zero prices. Oracle on (delta position, "
        "delta parent cash): cash moves by exactly -cost(q); cost(q) <= amount; integer mode: q integral and cost(q+1) > amount; fractional: "
        "cost == amount; amount == -value closes; zero amount is a no-op; NaN/zero price raises. One evaluation = one allocate call; distinct = "
        "(mode, sign of position, sign of amount, amount class, commission, spread on/off, call path); every evaluation with a non-zero trade is non-trivial.")
ASSUMPTIONS = ["commission domain read narrowly: f(q+1)-f(q) < price x multiplier for all q and f(1) < price x multiplier; cases outside are out of domain",
               "cost(0) = 0 (no trade, no fee)"]

BATCH = 200
TOL = 1e-6


def plan(tier):
    n = 300 if tier == "quick" else 4000   # batches of BATCH allocations
    return [dict(unit="w4", n=n, builds=["py", "so"], case_timeout=300, chunk=10 if tier == "quick" else 100)]


def floors(tier):
    return {"min_decided": 20000, "counters": {"alloc_calls": 30000, "trades": 15000, "closeouts": 500, "refused_bad_price": 300, "zero_amount": 300, "zero_amount_bad_price": 100},
            "max_undecided_frac": 0.3}


def mk(price, mult, pos0, integer, spread, comm, nested):
    dts = pd.date_range("2020-01-01", periods=2)
    data = pd.DataFrame({"a": [price if price == price and price != 0 else 50.0, price]}, index=dts)
    kw = {}
    if spread is not None:
        kw["bidoffer"] = pd.DataFrame({"a": [spread, spread]}, index=dts)
    sec = Security("a", multiplier=mult)
    if nested:
        sub = Strategy("sub", [], children=[sec])
        root = Strategy("s", [], children=[sub])
        par = root["sub"]
    else:
        root = Strategy("s", [], children=[sec])
        par = root
    sec = par["a"]
    root.use_integer_positions(integer)
    if comm != "none":
        root.set_commissions(ins.Comm(comm))
    root.setup(data, **kw)
    root.update(dts[0])
    root.adjust(1e7)
    if nested:
        root.allocate(5e6, child="sub")
    root.update(dts[0])
    if pos0 != 0:
        sec.transact(pos0)
        root.update(dts[0])
    root.update(dts[1])
    return root, par, sec


def cost(q, p, m, spread, comm):
    if q == 0:
        return 0.0
    sp = 0.0 if spread is None else abs(q) * 0.5 * spread * m
    return q * p * m + sp + ins.fee(comm, q, p * m)


def in_domain(comm, p, m, qs):
    unit = p * m
    if comm == "none":
        return True
    if not ins.fee(comm, 1, unit) < unit:
        return False
    for q in qs:
        for a, b in ((q, q + 1), (q - 1, q)):
            if abs(ins.fee(comm, b, unit)) - abs(ins.fee(comm, a, unit)) >= unit and abs(b) > abs(a):
                return False
            if abs(ins.fee(comm, a, unit)) - abs(ins.fee(comm, b, unit)) >= unit and abs(a) > abs(b):
                return False
    return True


def one(rng, j):
    price = rng.choice([100.0, 10.0, 37.5, 1.23, 250.0, round(rng.uniform(0.5, 500), 2), round(rng.uniform(2, 50), 3)])
    mult = rng.choice([1, 1, 1, 10, 0.5, 100])
    integer = rng.random() < 0.7
    if integer:
        pos0 = rng.choice([0, 0, 3, -3, 10, -10, rng.randint(-50, 50), rng.randint(-2000, 2000)])
    else:
        pos0 = rng.choice([0, 2.5, -2.5, rng.uniform(-50, 50)])
    spread = rng.choice([None, None, 0.0, 0.02 * price, 0.1, 0.005 * price])
    comm = rng.choice(["none", "prop", "fixprop", "max1", "prop5"])
    nested = rng.random() < 0.2
    via_parent = rng.random() < 0.3
    unit = price * mult
    k = rng.random()
    if k < 0.1:
        cls, a = "closeout", None
    elif k < 0.2:
        cls, a = "subunit", rng.choice([1, -1]) * rng.uniform(0, unit)
    elif k < 0.3:
        cls, a = "multiple", rng.choice([1, -1]) * unit * rng.randint(1, 20)
    elif k < 0.34:
        cls, a = "zero", 0.0
    elif k < 0.40:
        cls, a = "to_flat_nearby", None
    elif k < 0.44:
        cls, a = "mirror", None       # amount == +value: NOT a close-out request
    elif k < 0.49:
        cls, a = "near_closeout", None   # within 1e-9 .. 1e-5 (relative) of minus the value: still not a close-out
    else:
        cls, a = "random", rng.uniform(-30, 30) * unit
    bad = None
    r = rng.random()
    if r < 0.03:
        bad = "nan"
    elif r < 0.06:
        bad = "zero"
    elif cls == "zero" and r < 0.4:
        bad = "nan" if r < 0.23 else "zero"      # nothing is asked of an unquoted / worthless security: still a no-op, not an error
    return dict(price=price, mult=mult, integer=integer, pos0=pos0, spread=spread, comm=comm, nested=nested, via_parent=via_parent, cls=cls, amount=a, bad=bad, j=j)


def evaluate(c, cnt):
    """returns (verdict, mech, witness)"""
    p, m, pos0, integer, spread, comm = c["price"], c["mult"], c["pos0"], c["integer"], c["spread"], c["comm"]
    px = {"nan": float("nan"), "zero": 0.0}.get(c["bad"], p)
    if c["bad"] and pos0 != 0:
        # an open position at a missing price cannot be updated at all (C10); at a zero price it can
        if c["bad"] == "nan":
            pos0 = c["pos0"] = 0
    root, par, sec = mk(px, m, pos0, integer, spread, comm, c["nested"])
    v0 = sec.value
    a = c["amount"]
    if c["cls"] == "closeout":
        a = -v0
    elif c["cls"] == "mirror":
        a = v0
    elif c["cls"] == "near_closeout":
        r_ = random.Random(c["j"] + 7)
        a = -v0 * (1 + r_.choice([1, -1]) * 10 ** r_.uniform(-9, -5.1))
    elif c["cls"] == "to_flat_nearby":
        a = -v0 + random.Random(c["j"]).choice([1, -1]) * random.Random(c["j"] + 1).uniform(0, 0.6) * p * m
    c["amount"] = a
    cap0 = par.capital
    pos_before = sec.position
    try:
        if c["via_parent"]:
            par.allocate(a, child="a")
        else:
            sec.allocate(a)
        exc = None
    except Exception as e:
        exc = e
    common.bump(cnt, "alloc_calls")
    q = sec.position - pos_before
    dcash = par.capital - cap0
    w = dict(c, q=q, dcash=dcash, value_before=v0)
    if c["bad"]:
        if a == 0:
            common.bump(cnt, "zero_amount_bad_price")
            if exc is not None:
                return common.VIOL, "c05_zero_amount_raised", dict(w, exc=str(exc)[:100])
            if q != 0 or dcash != 0:
                return common.VIOL, "c05_zero_amount_not_noop", w
            return common.HELD, None, None
        if abs(a) < 1e-15:
            return common.HELD, None, None
        common.bump(cnt, "refused_bad_price" if exc is not None else "bad_price_not_refused")
        if exc is None:
            return common.VIOL, "c05_bad_price_not_refused", w
        if q != 0 or dcash != 0:
            return common.VIOL, "c05_bad_price_side_effect", dict(w, exc=str(exc)[:100])
        return common.HELD, None, None
    if exc is not None:
        w["exc"] = str(exc)[:120]
        if not in_domain(comm, p, m, [int(a / (p * m))]):
            return common.OOD, None, "commission outside the domain"
        if common.is_guard_exc(exc):
            return common.VIOL, "k1_guard", w
        return common.VIOL, "c05_unexpected_exception", w
    ct = cost(q, p, m, spread, comm)
    w["cost"] = ct
    if q != 0:
        common.bump(cnt, "trades")
    tol = TOL + 1e-9 * (abs(a) + abs(ct))
    if abs(a) < 1e-16:
        common.bump(cnt, "zero_amount")
        if q != 0 or dcash != 0:
            return common.VIOL, "c05_zero_amount_not_noop", w
        return common.HELD, None, None
    if not in_domain(comm, p, m, [q, int(a / (p * m))]):
        return common.OOD, None, "commission outside the domain"
    if abs(dcash + ct) > tol:
        return common.VIOL, "c05_cash_not_cost", w
    closeout = (a == -v0) and pos_before != 0   # 'exactly minus the current value'
    if closeout:
        common.bump(cnt, "closeouts")
        if sec.position != 0:
            return common.VIOL, "c05_closeout_not_closed", w
        return common.HELD, None, None
    # K3: the request, rounded by bt's own rule, lands exactly on -position (so the budget loop is skipped)
    raw = a / (p * m)
    if integer:
        rq = math.floor(raw) if (pos_before > 0 or (pos_before == 0 and a > 0)) else math.ceil(raw)
    else:
        rq = raw
    k3 = pos_before != 0 and q == -pos_before and rq == -pos_before
    if ct > a + tol:
        mech = "c05_overspend" if a > 0 else "c05_underraise"
        if k3:
            mech = "k3_rounded_to_closeout"
        elif integer and q == 0 and pos_before <= 0 and a < 0 and math.ceil(a / (p * m)) == 0:
            mech = "k2_subunit_negative_noop"
        return common.VIOL, mech, w
    if integer:
        if q != math.floor(q):
            return common.VIOL, "c05_non_integral", w
        c1 = cost(q + 1, p, m, spread, comm)
        w["cost_q_plus_1"] = c1
        if c1 <= a - tol:
            mech = "c05_not_maximal"
            if q == -1 and ins.fee(comm, 0, p * m) != 0:
                mech = "k9_fee_charged_at_zero_quantity"
            elif k3:
                mech = "k3_rounded_to_closeout"
            return common.VIOL, mech, w
    else:
        if abs(ct - a) > tol:
            mech = "c05_fractional_cost_not_amount"
            if k3:
                mech = "k3_rounded_to_closeout"
            return common.VIOL, mech, w
    return common.HELD, None, None


def run_case(unit, cs, idx, build, params):
    rng = random.Random(cs)
    cnt = {}
    out = []
    held = 0
    sigs = set()
    oods = {}
    samples = []
    for j in range(BATCH):
        c = one(rng, cs + j)
        v, mech, w = evaluate(c, cnt)
        sg = (c["integer"], int(np.sign(c["pos0"])), int(np.sign(c["amount"] or 0)), c["cls"], c["comm"], c["spread"] is not None, c["via_parent"], c["nested"], c["bad"])
        if v == common.HELD:
            held += 1
            sigs.add(sg)
            if len(samples) < 2 and j % 50 == 7:
                samples.append({k: c[k] for k in ("price", "mult", "integer", "pos0", "spread", "comm", "cls", "amount", "bad")})
        elif v == common.OOD:
            oods[w] = oods.get(w, 0) + 1
        else:
            out.append(common.result(common.VIOL, sig=sg, nt=True, mech=mech, witness=dict(w, sub_index=j, case_seed=cs)))
    r = common.result(common.HELD, nt=True, cnt=cnt, sample={"batch_of": BATCH, "examples": samples})
    r["n"] = held
    r["sigs"] = [list(s) for s in sigs]
    out.append(r)
    for why, n in oods.items():
        o = common.result(common.OOD, why=why)
        o["n"] = n
        out.append(o)
    return out
