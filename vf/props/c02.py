"""C02 - value conservation / P&L attribution (per operation and per date)."""
from .. import mon1
from .. import mon2
from . import _w1case, _w2case

ID = "C02"
LEVEL = "exploration"
RULE = ("W1 op-sequences: after every operation V_after - V_before == external amount - costs recomputed from the trade log; per date "
        "dV == mark-to-market on start-of-day positions (input prices) + flows + non-flow adjustments - costs. W2 backtests: date-level "
        "decomposition incl. coupons. Non-trivial: >=1 executed trade and >=3 ops (W1) / >=1 trade and >=2 dates (W2); distinct by "
        "(tree shape, position mode, cost model, spread, op-kind set | stack description).")
ASSUMPTIONS = ["commission functions are harness-owned pure functions re-evaluated by the oracle", "tolerance 1e-9 x (1 + gross exposure of the whole tree)"]


def plan(tier):
    n = 1500 if tier == "quick" else 40000
    m = 400 if tier == "quick" else 10000
    return [dict(unit="w1", n=n, builds=["py", "so"], case_timeout=60), dict(unit="w2", n=m, builds=["py", "so"], case_timeout=120)]


def floors(tier):
    return {"min_decided": 300, "counters": {"conservation_op_evals": 5000, "conservation_date_evals": 1000, "trades": 500, "c02_date_evals": 10000}, "max_undecided_frac": 0.4}


def run_case(unit, cs, idx, build, params):
    if unit == "w2":
        return _w2case.run_w2(cs, [mon2.c02_dates])
    return _w1case.run_w1(cs, [mon1.Conservation()])
