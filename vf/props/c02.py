"""C02 - value conservation / P&L attribution (per operation and per date)."""
from .. import mon1
from .. import common, instrument as ins, mon2, w5
from . import _replay, _w1case, _w2case

ID = "C02"
LEVEL = "exploration"
RULE = ("W1 op-sequences: after every operation V_after - V_before == external amount - costs recomputed from the trade log; per date "
        "dV == mark-to-market on start-of-day positions (input prices) + flows + non-flow adjustments - costs. W2 backtests: date-level "
        "decomposition incl. coupons. Non-trivial: >=1 executed trade and >=3 ops (W1) / >=1 trade and >=2 dates (W2); distinct by "
        "(tree shape, position mode, cost model, spread, op-kind set | stack description).")
ASSUMPTIONS = ["commission functions are harness-owned pure functions re-evaluated by the oracle", "tolerance 1e-9 x (1 + gross exposure of the whole tree)"]


def plan(tier):
    n = 1500 if tier == "quick" else 16000
    m = 400 if tier == "quick" else 4000
    return [dict(unit="w1", n=n, builds=["py", "so"], case_timeout=60), dict(unit="w2", n=m, builds=["py", "so"], case_timeout=120),
            dict(unit="w5", n=m // 2, builds=["py", "so"], case_timeout=120),
            dict(unit="replay", n=m // 3, builds=["py", "so"], case_timeout=180)]


def floors(tier):
    return {"min_decided": 300, "counters": {"conservation_op_evals": 5000, "conservation_date_evals": 1000, "trades": 500, "c02_date_evals": 10000, "coupon_accruals": 500, "custom_price_trades": 1000}, "max_undecided_frac": 0.4}


def run_w5(cs):
    """fixed-income backtests: coupons less holding costs accrued on t are paid on t+1"""
    ins.reset()
    spec = w5.gen(cs)
    run = w5.run_backtest(spec)
    sig = w5.signature(spec)
    if run.exc is not None:
        if isinstance(run.exc, ZeroDivisionError) or common.is_guard_exc(run.exc):
            return common.result(common.OOD, sig=sig, why="zero notional / sizing guard")
        return common.result(common.INC, sig=sig, why="bt raised %s: %s" % (type(run.exc).__name__, str(run.exc)[:100]))
    cnt, res = {}, {}
    secs = {id(s): s for s in ins.securities(run.root)}

    def carry(root, i, pos):
        c = 0.0
        for k, p in pos.items():
            if p != 0 and k in secs:
                a = w5.accrual(spec, None, secs[k], i, p)
                if a != 0:
                    common.bump(cnt, "coupon_accruals")
                c += a
        return c

    out = mon2.c02_dates(run, cnt, res, coupons=carry)
    ntr = sum(1 for e in run.events if e["k"] == "trade")
    common.bump(cnt, "trades", ntr)
    if out:
        return common.result(common.VIOL, sig=sig, nt=True, cnt=cnt, res=res, mech=out[0], witness=dict(out[1], case_seed=cs, fixed_income=True, kinds=spec["kinds"]))
    return common.result(common.HELD, sig=sig, nt=ntr >= 1, cnt=cnt, res=res, sample=w5.sample_of(spec))


def run_replay(cs):
    got, early = _replay.replay_run(cs)
    if early is not None:
        return early
    run, sig, spec = got
    cnt, res = {}, {}
    out = mon2.c02_dates(run, cnt, res)
    ncp = sum(1 for e in run.events if e["k"] == "trade" and e["cp"] is not None)
    common.bump(cnt, "custom_price_trades", ncp)
    if out:
        return common.result(common.VIOL, sig=sig, nt=True, cnt=cnt, res=res, mech=out[0], witness=dict(out[1], case_seed=cs, replayed=True, desc=spec["desc"]))
    return common.result(common.HELD, sig=sig, nt=ncp >= 1, cnt=cnt, res=res, sample={"replayed_custom_price_trades": ncp, "desc": spec["desc"]})


def run_case(unit, cs, idx, build, params):
    if unit == "replay":
        return run_replay(cs)
    if unit == "w5":
        return run_w5(cs)
    if unit == "w2":
        return _w2case.run_w2(cs, [mon2.c02_dates])
    return _w1case.run_w1(cs, [mon1.Conservation()])
