"""C19 - tree wiring, universe scoping, lazy children are transparent."""
import copy
import random

import numpy as np
import pandas as pd

import bt
from bt.core import Node, Security, SecurityBase, Strategy, StrategyBase

from .. import common, instrument as ins, mon2, w2
from . import _w2case

ID = "C19"
KNOWN_CEILING = {'k10_pte_reads_positions_columns': 0.03}   # share of all evaluations a known finding may reach before it counts as a violation again
LEVEL = "exploration"
RULE = ("Unit 'struct': random tree descriptions built through every constructor form (nested lists, dicts with renaming, strings, parent= "
        "attachment, dynamic setup_from_parent after setup); checks parent/children/root/members/full_name against the description, duplicate "
        "sibling names raise, integer-position and commission settings reach every descendant incl. lazily created securities. Unit 'universe': a "
        "probe algo in every stack of W2 runs checks universe columns == declared tickers (all if none) + one column per sub-strategy equal to that "
        "child's prices, rows <= now. Unit 'lazy_eager': each W2 case is run with string children and again with Security objects declared up "
        "front in creation order (bit-identical frames) and in arbitrary order (1e-9). Distinct = description / W2 signature; non-trivial = "
        ">=2 levels or >=1 trade.")
ASSUMPTIONS = ["floating sums depend on child order: bit-equality only when eager children are declared in lazy creation order",
               "a strategy attached dynamically after set_commissions does not inherit the commission function (not claimed by the statement)"]


def plan(tier):
    q = tier == "quick"
    return [dict(unit="struct", n=300 if q else 3200, builds=["py", "so"], case_timeout=60),
            dict(unit="universe", n=120 if q else 1200, builds=["py", "so"], case_timeout=180),
            dict(unit="lazy_eager", n=150 if q else 1600, builds=["py", "so"], case_timeout=240)]


def floors(tier):
    return {"min_decided": 400, "counters": {"nodes_checked": 3000, "duplicates_refused": 100, "universe_probes": 3000, "substrategy_columns": 500,
                                             "lazy_eager_pairs": 150, "lazy_created_nodes": 200, "struct_universe_evals": 800, "dynamic_children": 100, "members_evals": 1500}, "max_undecided_frac": 0.3}


# ------------------------------------------------------------------ struct
def gen_desc(rng, depth=0, counter=None):
    counter = counter if counter is not None else [0]
    kids = []
    for _ in range(rng.randint(0 if depth else 1, 3)):
        counter[0] += 1
        r = rng.random()
        if r < 0.35 and depth < 2:
            kids.append({"t": "strat", "name": "s%d" % counter[0], "kids": gen_desc(rng, depth + 1, counter)})
        elif r < 0.65:
            kids.append({"t": "sec", "name": "t%d" % counter[0]})
        else:
            kids.append({"t": "lazy", "name": "t%d" % counter[0]})
    return kids


def build_nested(kids, form, rng):
    out = []
    for k in kids:
        if k["t"] == "strat":
            out.append(Strategy(k["name"], [], children=build_nested(k["kids"], form, rng) or None))
        elif k["t"] == "sec":
            out.append(Security(k["name"]))
        else:
            out.append(k["name"])
    if form == "dict":
        d = {}
        for k, o in zip(kids, out):
            if isinstance(o, str):
                d[k["name"]] = o
            else:
                o.name = "renamed_" + k["name"]   # the dict key must win
                d[k["name"]] = o
        return d
    return out


def attach(parent, kids):
    """top-down construction with parent="""
    for k in kids:
        if k["t"] == "strat":
            s = Strategy(k["name"], [], parent=parent)
            attach(s, k["kids"])
        elif k["t"] == "sec":
            parent._add_children([Security(k["name"])], dc=False)
        else:
            parent._add_children([k["name"]], dc=False)


def verify(node, name, kids, parent, root, prefix, cnt):
    common.bump(cnt, "nodes_checked")
    if node.name != name:
        return {"what": "name", "node": node.name, "expected": name}
    if node.parent is not parent:
        return {"what": "parent", "node": prefix}
    if node.root is not root:
        return {"what": "root", "node": prefix}
    if node.full_name != prefix:
        return {"what": "full_name", "got": node.full_name, "expected": prefix}
    eager = [k for k in kids if k["t"] != "lazy"]
    if list(node.children.keys()) != [k["name"] for k in eager]:
        return {"what": "children", "node": prefix, "got": list(node.children.keys()), "expected": [k["name"] for k in eager]}
    lazy = [k["name"] for k in kids if k["t"] == "lazy"]
    if sorted(node._lazy_children.keys()) != sorted(lazy):
        return {"what": "lazy children", "node": prefix, "got": sorted(node._lazy_children.keys()), "expected": sorted(lazy)}
    tick = [k["name"] for k in kids if k["t"] != "strat"]
    if sorted(node._universe_tickers) != sorted(tick):
        return {"what": "universe tickers", "node": prefix, "got": node._universe_tickers, "expected": tick}
    for k in eager:
        c = node.children[k["name"]]
        if node[k["name"]] is not c:
            return {"what": "getitem", "node": prefix}
        bad = verify(c, k["name"], k.get("kids", []), node, root, prefix + ">" + k["name"], cnt)
        if bad:
            return bad
    return None


def preorder(name, kids, prefix=None):
    p = name if prefix is None else prefix + ">" + name
    out = [p]
    for k in kids:
        if k["t"] != "lazy":
            out += preorder(k["name"], k.get("kids", []), p)
    return out


def _walk(node):
    out = [node]
    for c in (node.children or {}).values():
        out += _walk(c)
    return out


def members_complete(root, cnt):
    """`members` of every strategy equals a fresh walk of the children dicts below it (also after the tree grew since an earlier read)"""
    for s in _walk(root):
        if not isinstance(s, StrategyBase):
            continue
        common.bump(cnt, "members_evals")
        got = s.members
        exp = _walk(s)
        if len(got) != len(exp) or {id(x) for x in got} != {id(x) for x in exp}:
            return {"node": s.full_name, "members": [m.full_name for m in got], "subtree": [m.full_name for m in exp]}
    return None


def case_struct(cs):
    rng = random.Random(cs)
    cnt = {}
    kids = gen_desc(rng)
    form = rng.choice(["list", "dict", "attach"])
    w = {"case_seed": cs, "form": form, "description": kids}
    if form == "attach":
        root = Strategy("root", [])
        attach(root, kids)
    else:
        root = Strategy("root", [], children=build_nested(kids, form, rng))
    bad = verify(root, "root", kids, root, root, "root", cnt)
    if bad:
        return common.result(common.VIOL, sig=[form, repr(kids)[:80]], nt=True, cnt=cnt, mech="c19_wiring", witness=dict(w, **bad))
    bad = members_complete(root, cnt)
    if bad:
        return common.result(common.VIOL, sig=[form], nt=True, cnt=cnt, mech="c19_members", witness=dict(w, what="after construction", **bad))
    got = [m.full_name for m in root.members]
    if got != preorder("root", kids):
        return common.result(common.VIOL, sig=[form], nt=True, cnt=cnt, mech="c19_members", witness=dict(w, members=got, expected=preorder("root", kids)))
    # duplicates are refused
    names = [k["name"] for k in kids]
    dup = rng.choice(names)
    dk = [k for k in kids if k["name"] == dup][0]
    variants = []
    if dk["t"] == "lazy":
        variants.append(lambda: Strategy("r", [], children=[dup, dup]))
        variants.append(lambda: Strategy("r", [], children=[dup, "x", dup]))
    else:
        variants.append(lambda: Strategy("r", [], children=[Security(dup), Security(dup)]))
        variants.append(lambda: Strategy("r", [], children=[Security(dup), Strategy(dup, [])]))
        variants.append(lambda: Strategy(dup, [], parent=Strategy("r", [], children=[Security(dup)])))
    for v in variants:
        try:
            v()
            return common.result(common.VIOL, sig=[form], nt=True, cnt=cnt, mech="c19_duplicate_accepted", witness=dict(w, duplicate=dup, kind=dk["t"]))
        except ValueError:
            common.bump(cnt, "duplicates_refused")
    # settings pushed from the top reach every descendant, lazily created securities included
    integer = rng.random() < 0.5
    root.use_integer_positions(integer)
    comm = ins.Comm("prop")
    root.set_commissions(comm)
    nd = 4
    dts = pd.date_range("2020-01-01", periods=nd, freq="B")
    allt = sorted({k for k in _tickers(kids)})
    data = pd.DataFrame(100.0 + np.arange(nd * len(allt)).reshape(nd, len(allt)), index=dts, columns=allt) if allt else pd.DataFrame({"zz": [1.0] * nd}, index=dts)
    root.setup(data)
    root.update(dts[0])
    root.adjust(1e6)
    root.update(dts[0])
    # create every lazy child by trading it
    for s in [m for m in root.members if isinstance(m, StrategyBase)]:
        if s is not root:
            s.parent.allocate(1e4, child=s.name)
    root.update(dts[0])
    created = 0
    for s in [m for m in root.members if isinstance(m, StrategyBase)]:
        for nm in list(s._lazy_children.keys()):
            s.allocate(500.0, child=nm)
            created += 1
    root.update(dts[0])
    bad = members_complete(root, cnt)
    if bad:
        return common.result(common.VIOL, sig=[form], nt=True, cnt=cnt, mech="c19_members", witness=dict(w, what="after lazy creation", lazily_created=created, **bad))
    for m in root.members:
        common.bump(cnt, "nodes_checked")
        if m.integer_positions != integer:
            return common.result(common.VIOL, sig=[form], nt=True, cnt=cnt, mech="c19_integer_setting", witness=dict(w, node=m.full_name, lazily_created=created))
        if isinstance(m, StrategyBase) and m.commission_fn is not comm:
            return common.result(common.VIOL, sig=[form], nt=True, cnt=cnt, mech="c19_commission_setting", witness=dict(w, node=m.full_name))
        if m.root is not root or (m is not root and m.parent.children.get(m.name) is not m):
            return common.result(common.VIOL, sig=[form], nt=True, cnt=cnt, mech="c19_wiring", witness=dict(w, node=m.full_name, what="after lazy creation"))
    # dynamic child attached after setup
    if rng.random() < 0.5 and allt:
        par = rng.choice([m for m in root.members if isinstance(m, StrategyBase)])
        dyn = Strategy("dyn", [], children=[allt[0]], parent=par)
        dyn.setup_from_parent()
        common.bump(cnt, "dynamic_children")
        if dyn.root is not root or par.children.get("dyn") is not dyn or "dyn" not in par.universe.columns or dyn.integer_positions != integer:
            return common.result(common.VIOL, sig=[form], nt=True, cnt=cnt, mech="c19_dynamic_child", witness=dict(w, parent=par.full_name))
        if dyn.full_name != par.full_name + ">dyn" or root.members[-1 if par is root else 0] is None:
            return common.result(common.VIOL, sig=[form], nt=True, cnt=cnt, mech="c19_dynamic_child", witness=dict(w, full_name=dyn.full_name))
        root.update(dts[1])
        par.allocate(1000.0, child="dyn")
        root.update(dts[1])
        bad = members_complete(root, cnt)
        if bad:
            return common.result(common.VIOL, sig=[form], nt=True, cnt=cnt, mech="c19_members", witness=dict(w, what="after a child attached and funded after setup", **bad))
    # universe scoping after setup and a few updates (dates fed in order), for every strategy of the tree
    if root.now != dts[1]:
        root.update(dts[1])
    root.update(dts[2])
    declared = {}

    def decl(node_kids, path, constructed_with_children):
        tick = [k["name"] for k in node_kids if k["t"] != "strat"]
        subs = [k["name"] for k in node_kids if k["t"] == "strat"]
        declared[path] = (tick if (constructed_with_children and node_kids) else None, subs)
        for k in node_kids:
            if k["t"] == "strat":
                decl(k["kids"], path + ">" + k["name"], form != "attach")

    decl(kids, "root", form != "attach")
    for m in root.members:
        if not isinstance(m, StrategyBase) or m.full_name not in declared:
            continue
        tick, subs = declared[m.full_name]
        extra = ["dyn"] if ("dyn" in m.children) else []
        cols0 = allt or ["zz"]      # the columns of the frame as it was handed to setup (the live frame may have been written through)
        exp = set(cols0 if tick is None else [t for t in tick if t in cols0]) | set(subs) | set(extra)
        got = list(m.universe.columns)
        common.bump(cnt, "struct_universe_evals")
        if set(got) != exp or len(got) != len(set(got)):
            return common.result(common.VIOL, sig=[form], nt=True, cnt=cnt, mech="c19_universe_columns",
                                 witness=dict(w, node=m.full_name, columns=got, expected=sorted(exp), declared_at_construction=tick is not None))
        for sname in subs:
            a = m.children[sname].prices.to_numpy(dtype=float)
            b = m.universe[sname].reindex(m.children[sname].prices.index).to_numpy(dtype=float)
            if not ((a == b) | (np.isnan(a) & np.isnan(b))).all():
                return common.result(common.VIOL, sig=[form], nt=True, cnt=cnt, mech="c19_substrategy_column", witness=dict(w, node=m.full_name, child=sname))
    if list(data.columns) != (allt or ["zz"]):
        return common.result(common.VIOL, sig=[form], nt=True, cnt=cnt, mech="c19_input_frame_written", witness=dict(w, columns_now=list(data.columns), columns_given=allt))
    depth = max(p.count(">") for p in preorder("root", kids))
    return common.result(common.HELD, sig=[form, repr(kids)[:120]], nt=depth >= 1, cnt=cnt, sample={"form": form, "description": kids})


def _tickers(kids):
    for k in kids:
        if k["t"] == "strat":
            for t in _tickers(k["kids"]):
                yield t
        else:
            yield k["name"]


# ------------------------------------------------------------------ universe probe
class UniCtx(mon2.SharedCtx):
    def __init__(self, cs, spec):
        self.rng = random.Random(cs ^ 0xC19)
        self.viol = None
        self.n = 0
        self.nsub = 0
        self.decl = {}
        self.cols = list(spec["tickers"])

        def walk(node, path):
            kids = node.get("children")
            tick = None if not kids else [k["name"] for k in kids if k["type"] != "strat"]
            subs = [] if not kids else [k["name"] for k in kids if k["type"] == "strat"]
            self.decl[path] = (tick, subs)
            for k in kids or []:
                if k["type"] == "strat":
                    walk(k, path + ">" + k["name"])

        walk(spec["root"], spec["root"]["name"])

    def before(self, probe, target):
        if self.viol is not None or self.rng.random() > 0.25:
            return
        # name relative to the top of the tree the target hangs in (paper shadows are trees of their own)
        full = target.full_name
        key = [k for k in self.decl if k == full or k.endswith(">" + full)]
        if not key:
            return
        tick, subs = self.decl[sorted(key, key=len)[-1]]
        uni = target.universe
        self.n += 1
        exp = set(self.cols if tick is None else [t for t in tick if t in self.cols]) | set(subs)
        if set(uni.columns) != exp or len(set(uni.columns)) != len(uni.columns):
            self.viol = ("c19_universe_columns", {"node": full, "columns": list(uni.columns), "expected": sorted(exp), "now": str(target.now)})
            return
        if len(uni.index) and uni.index.max() > target.now:
            self.viol = ("c19_universe_beyond_now", {"node": full, "last": str(uni.index.max()), "now": str(target.now)})
            return
        for s in subs:
            if s in target.children:
                cp = target.children[s].prices
                col = target.universe[s]
                self.nsub += 1
                a = cp.to_numpy(dtype=float)
                b = col.reindex(cp.index).to_numpy(dtype=float)
                if len(col) != len(cp) or not ((a == b) | (np.isnan(a) & np.isnan(b))).all():
                    i = int(np.argmin((a == b) | (np.isnan(a) & np.isnan(b)))) if len(col) == len(cp) else -1
                    self.viol = ("c19_substrategy_column", {"node": full, "child": s, "now": str(target.now), "row": i,
                                                            "child_price": float(a[i]) if i >= 0 else None, "universe_value": float(b[i]) if i >= 0 else None})
                    return


def uni_oracle(run, cnt, res, ctx):
    common.bump(cnt, "universe_probes", ctx.n)
    common.bump(cnt, "substrategy_columns", ctx.nsub)
    return ctx.viol


# ------------------------------------------------------------------ lazy == eager
def to_eager(spec, order_of):
    sp = copy.deepcopy(spec)

    def walk(node, path):
        kids = node.get("children")
        if kids is None:
            # nothing declared: the universe is every ticker; declare them all
            created = order_of.get(path, [])
            rest = [t for t in sp["tickers"] if t not in created]
            node["children"] = [{"type": "sec", "name": t, "mult": 1} for t in created + rest]
            return
        byname = {k["name"]: k for k in kids}
        created = [n for n in order_of.get(path, []) if n in byname]
        rest = [k["name"] for k in kids if k["name"] not in created]
        new = []
        for n in created + rest:
            k = byname[n]
            if k["type"] == "lazy":
                new.append({"type": "sec", "name": n, "mult": 1})
            else:
                new.append(k)
                if k["type"] == "strat":
                    walk(k, path + ">" + n)
        node["children"] = new

    walk(sp["root"], sp["root"]["name"])
    return sp


def case_lazy_eager(cs):
    ins.install()
    ins.reset()
    spec = w2.gen(cs, deterministic=True, solvers=False)
    # make every security child lazy in the first run
    lazy = copy.deepcopy(spec)

    def lz(node):
        for k in node.get("children") or []:
            if k["type"] == "sec" and k.get("mult", 1) == 1:
                k["type"] = "lazy"
            elif k["type"] == "sec":
                pass
            if k["type"] == "strat":
                lz(k)

    lz(lazy["root"])
    sig = w2.signature(spec)
    sample = w2.sample_of(lazy)
    a = w2.run(lazy)
    cnt = {}
    if a.exc is not None:
        v, why = _w2case.classify_exc(a.exc, spec)
        return common.result(v, sig=sig, why=why, sample=sample)
    order_of = {m.full_name: list(m.children.keys()) for m in a.root.members if isinstance(m, StrategyBase)}
    eager = to_eager(lazy, order_of)
    ins.reset()
    b = w2.run(eager)
    w = {"case_seed": cs, "desc": spec["desc"]}
    if b.exc is not None:
        return common.result(common.VIOL, sig=sig, nt=True, mech="c19_eager_run_raises", witness=dict(w, exception="%s: %s" % (type(b.exc).__name__, str(b.exc)[:160])), sample=sample)
    fa, fb = mon2.all_frames(a.root), mon2.all_frames(b.root)
    common.bump(cnt, "lazy_eager_pairs")
    n_lazy = sum(1 for m in a.root.members if isinstance(m, SecurityBase))
    common.bump(cnt, "lazy_created_nodes", n_lazy)
    ntr = sum(1 for e in a.events if e["k"] == "trade")
    common.bump(cnt, "trades", ntr)
    both_a = {k: v for k, v in fa.items() if k in fb}
    both_b = {k: v for k, v in fb.items() if k in fa}
    d = ins.first_frame_diff(both_a, both_b)
    if d:
        mech = "k10_pte_reads_positions_columns" if "PTE_Rebalance" in w2.algo_names(spec) else "c19_lazy_differs_from_eager"
        return common.result(common.VIOL, sig=sig, nt=True, cnt=cnt, mech=mech, witness=dict(w, **d), sample=sample)
    for k, (cols, arr) in fb.items():
        if k not in fa and "position" in cols:
            if np.nan_to_num(arr[:, cols.index("position")]).any() or np.nan_to_num(arr[:, cols.index("value")]).any():
                return common.result(common.VIOL, sig=sig, nt=True, cnt=cnt, mech="c19_lazy_differs_from_eager", sample=sample,
                                     witness=dict(w, node=k, what="traded in the eager run, never created in the lazy run"))
    for k in fa:
        if k not in fb:
            return common.result(common.VIOL, sig=sig, nt=True, cnt=cnt, mech="c19_lazy_differs_from_eager", witness=dict(w, node=k, what="missing in eager run"), sample=sample)
    # arbitrary declaration order: equal up to floating summation order. Only asserted for cost-free specs: with fees or spreads the
    # order in which children are traded is economically visible (each fee changes the base the next child is sized on), and
    # order-independence is not part of the statement.
    if spec["comm"] == "none" and "bidoffer" not in spec["extras"] and not spec["integer"]:
        shuffled = to_eager(lazy, {})
        ins.reset()
        c = w2.run(shuffled)
        if c.exc is not None:
            return common.result(common.VIOL, sig=sig, nt=True, cnt=cnt, mech="c19_eager_run_raises", witness=dict(w, exception=str(c.exc)[:160], order="declared"), sample=sample)
        fc = mon2.all_frames(c.root)
        scale = float(np.nanmax(np.abs(a.root.data["value"].to_numpy(dtype=float)))) if len(a.root.data) else 1.0
        common.bump(cnt, "declared_order_pairs")
        d = ins.first_frame_diff({k: v for k, v in fa.items() if k in fc}, {k: v for k, v in fc.items() if k in fa}, rel=1e-9, abs_tol=1e-9 * (1 + scale))
        if d:
            return common.result(common.VIOL, sig=sig, nt=True, cnt=cnt, mech="c19_lazy_differs_from_eager_unordered", witness=dict(w, **d), sample=sample)
    return common.result(common.HELD, sig=sig, nt=ntr >= 1, cnt=cnt, sample=sample)


def run_case(unit, cs, idx, build, params):
    if unit == "struct":
        return case_struct(cs)
    if unit == "lazy_eager":
        return case_lazy_eager(cs)
    spec = w2.gen(cs, nested_p=0.6)
    return _w2case.run_w2(cs, [uni_oracle], spec=spec, setup=lambda: UniCtx(cs, spec))
