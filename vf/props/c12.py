"""C12 - calendar and counting schedulers fire exactly on their boundaries."""
import datetime
import itertools
import random

import numpy as np
import pandas as pd

import bt
from bt import algos

from .. import common

ID = "C12"
LEVEL = "exploration"
RULE = ("Generated date indices (daily, business-daily, weekly, intraday 30min/6h/13h, sparse with gaps of 1-370 days) started around year ends, "
        "leap day and quarter ends; every RunPeriod subclass x all 8 flag combinations evaluated on every row (direct calls on a set-up strategy) and "
        "through real Backtests with a spy algo; counting/date schedulers through real Backtests. Reference: independent calendar keys "
        "(date / ISO (year, week) / (year, month) / (year, quarter) / year) of neighbouring rows. Unit 'enum' enumerates 9 year-boundary starts x 5 "
        "index frequencies x 5 period kinds x 8 flag sets completely. Distinct = (index kind, scheduler, flags); non-trivial = the scheduler fired "
        "on at least one row and stayed silent on at least one.")
ASSUMPTIONS = ["'week' is the ISO week, as bt uses", "reference calendar arithmetic uses datetime.isocalendar and plain year/month fields"]

CLS = {"D": "RunDaily", "W": "RunWeekly", "M": "RunMonthly", "Q": "RunQuarterly", "Y": "RunYearly"}
STARTS = ["2008-12-20", "2009-12-24", "2012-12-20", "2014-12-22", "2015-12-21", "2018-12-24", "2019-12-23", "2020-02-20", "2010-03-25", "2016-06-25",
          "2020-12-21", "2024-12-23", "2026-12-21", "2021-12-27", "2027-12-27"]
YEAR_STARTS = ["2008-12-20", "2009-12-24", "2012-12-20", "2014-12-22", "2015-12-21", "2018-12-24", "2019-12-23", "2020-12-21", "2024-12-23"]
FREQS = ["D", "B", "W-FRI", "13h", "2D"]


def plan(tier):
    n = 1500 if tier == "quick" else 24000
    return [dict(unit="random", n=n, builds=["py"], case_timeout=120),
            dict(unit="enum", n=len(YEAR_STARTS) * len(FREQS), builds=["py"], fixed_n=True, case_timeout=300, chunk=3)]


def floors(tier):
    return {"min_decided": 1000, "counters": {"row_evals": 500000, "backtests": 3000, "new_year_week_rows": 500, "counting_evals": 10000},
            "max_undecided_frac": 0.1}


def period_key(kind, ts):
    d = datetime.datetime(ts.year, ts.month, ts.day, ts.hour, ts.minute)
    if kind == "D":
        return (d.year, d.month, d.day)
    if kind == "W":
        iso = d.isocalendar()
        return (iso[0], iso[1])
    if kind == "M":
        return (d.year, d.month)
    if kind == "Q":
        return (d.year, (d.month - 1) // 3)
    return d.year


def ref(kind, idx, first, eop, last):
    n = len(idx)
    out = []
    for i in range(n):
        if i == 0:
            out.append(False)
        elif i == 1:
            out.append(bool(first))
        elif i == n - 1:
            out.append(bool(last))
        else:
            j = i + 1 if eop else i - 1
            out.append(period_key(kind, idx[i]) != period_key(kind, idx[j]))
    return out


def gen_index(rng):
    kind = rng.choice(["daily", "bdaily", "sparse", "intraday", "weekly", "twoday", "monthstamp", "monthstamp"])
    start = pd.Timestamp(rng.choice(STARTS)) + pd.Timedelta(days=rng.randint(0, 6))
    n = rng.randint(4, 40)
    if kind == "daily":
        idx = pd.date_range(start, periods=n, freq="D")
    elif kind == "bdaily":
        idx = pd.date_range(start, periods=n, freq="B")
    elif kind == "weekly":
        idx = pd.date_range(start, periods=n, freq=rng.choice(["W-FRI", "W-MON", "W-WED"]))
    elif kind == "twoday":
        idx = pd.date_range(start, periods=n, freq="2D")
    elif kind == "monthstamp":
        # month-, quarter- or year-stamped data: neighbouring rows share the day of the month (and possibly month/quarter numbers across years)
        f = rng.choice(["MS", "SMS", "QS", "ME", "YS", "15"])
        if f == "15":
            idx = pd.DatetimeIndex([start.replace(day=15) + pd.DateOffset(months=i * rng.choice([1, 1, 2, 12])) for i in range(n)]).unique().sort_values()
        else:
            idx = pd.date_range(start, periods=n, freq=f)
        if rng.random() < 0.3:
            idx = idx + pd.Timedelta(hours=10)
    elif kind == "intraday":
        idx = pd.date_range(start + pd.Timedelta(hours=9), periods=n, freq=rng.choice(["6h", "30min", "13h"]))
    else:
        ds = [start]
        for _ in range(n - 1):
            ds.append(ds[-1] + pd.Timedelta(days=rng.choice([1, 1, 2, 3, 5, 9, 20, 45, 100, 200, 370])))
        idx = pd.DatetimeIndex(ds)
    return kind, idx


class Target(object):
    """minimal stand-in exposing what RunPeriod reads (now, data.index)"""

    def __init__(self, full):
        self.data = pd.DataFrame(index=full)
        self.now = None


class Spy(bt.Algo):
    def __init__(self):
        super(Spy, self).__init__()
        self.fired = []

    def __call__(self, t):
        self.fired.append(t.now)
        return True


def spy_backtest(stack_head, idx):
    data = pd.DataFrame({"a": np.arange(len(idx)) + 100.0}, index=idx)
    spy = Spy()
    s = bt.Strategy("s", [stack_head, spy])
    t = bt.Backtest(s, data)
    try:
        t.run()
    except ZeroDivisionError:
        # ffn's performance statistics (computed after the date loop) divide by a zero-length window on some multi-year sparse
        # calendars - a completion issue decided by C10 (K13); the spy log is complete at that point
        pass
    spy = t.strategy.stack.algos[-1]
    return t.data.index, spy.fired


def check_index(ikind, idx, rng, cnt, kinds=None, flagsets=None, n_bt=2):
    full = pd.DatetimeIndex([idx[0] - pd.DateOffset(days=1)]).append(idx)
    tgt = Target(full)
    viol = None
    sigs = set()
    nontrivial = 0
    for kind in (kinds or CLS):
        for first, eop, last in (flagsets or itertools.product((False, True), repeat=3)):
            a = getattr(algos, CLS[kind])(run_on_first_date=first, run_on_end_of_period=eop, run_on_last_date=last)
            exp = ref(kind, full, first, eop, last)
            got = []
            for d in full:
                tgt.now = d
                got.append(bool(a(tgt)))
            common.bump(cnt, "row_evals", len(full))
            if kind == "W":
                for i in range(2, len(full) - 1):
                    d0, d1 = full[i - 1], full[i]
                    if d0.year != d1.year and period_key("W", d0) == period_key("W", d1):
                        common.bump(cnt, "new_year_week_rows")
            if any(exp) and not all(exp):
                nontrivial += 1
                sigs.add((ikind, kind, first, eop, last))
            if got != exp and viol is None:
                i = [k for k in range(len(full)) if got[k] != exp[k]][0]
                viol = ("c12_period", {"scheduler": CLS[kind], "first": first, "end_of_period": eop, "last": last, "row": i, "date": str(full[i]),
                                       "prev": str(full[i - 1]) if i else None, "next": str(full[i + 1]) if i + 1 < len(full) else None,
                                       "fired": got[i], "expected": exp[i], "index_kind": ikind, "start": str(idx[0]), "n": len(idx)})
            # outside the data / None -> never
            for d in (full[0] - pd.Timedelta(days=3), full[-1] + pd.Timedelta(days=2), full[1] + pd.Timedelta(minutes=7)):
                if d in full:
                    continue
                tgt.now = d
                common.bump(cnt, "outside_evals")
                if a(tgt) and viol is None:
                    viol = ("c12_outside", {"scheduler": CLS[kind], "now": str(d)})
            tgt.now = None
            if a(tgt) and viol is None:
                viol = ("c12_outside", {"scheduler": CLS[kind], "now": None})
    # through real backtests
    for _ in range(n_bt):
        kind = rng.choice(list(kinds or CLS))
        first, eop, last = [rng.random() < 0.5 for _ in range(3)]
        a = getattr(algos, CLS[kind])(run_on_first_date=first, run_on_end_of_period=eop, run_on_last_date=last)
        fidx, fired = spy_backtest(a, idx)
        common.bump(cnt, "backtests")
        got = [d in fired for d in fidx]
        exp = ref(kind, fidx, first, eop, last)
        if (got != exp or len(fired) != sum(exp)) and viol is None:
            i = ([k for k in range(len(fidx)) if got[k] != exp[k]] or [0])[0]
            viol = ("c12_period_backtest", {"scheduler": CLS[kind], "first": first, "end_of_period": eop, "last": last, "row": i, "date": str(fidx[i]),
                                            "fired": got[i], "expected": exp[i], "times_fired": len(fired), "index_kind": ikind, "start": str(idx[0]), "n": len(idx)})
    return viol, sigs, nontrivial


def check_counting(idx, rng, cnt):
    """RunOnce, RunOnDate, RunAfterDate, RunAfterDays, RunEveryNPeriods through real backtests (one call per date) + repeated calls."""
    n = len(idx)
    which = rng.choice(["once", "ondate", "afterdate", "afterdays", "everyn"])
    if which == "once":
        a = algos.RunOnce()
        exp = [i == 0 for i in range(n)]
        par = {}
    elif which == "ondate":
        pick = sorted(rng.sample(range(n), rng.randint(1, min(5, n))))
        extra = [idx[0] - pd.Timedelta(days=400), idx[-1] + pd.Timedelta(days=30)]
        fmt = rng.choice(["ts", "str"])
        ds = [idx[i] for i in pick] + extra
        a = algos.RunOnDate(*[(str(d) if fmt == "str" else d) for d in ds])
        exp = [i in pick for i in range(n)]
        par = {"rows": pick, "fmt": fmt}
    elif which == "afterdate":
        k = rng.randint(0, n - 1)
        d = idx[k] if rng.random() < 0.7 else idx[k] + pd.Timedelta(hours=5)
        a = algos.RunAfterDate(d)
        exp = [idx[i] > d for i in range(n)]
        par = {"date": str(d)}
    elif which == "afterdays":
        k = rng.randint(0, n + 2)
        a = algos.RunAfterDays(k)
        exp = [i >= k for i in range(n)]
        par = {"days": k}
    else:
        m = rng.randint(1, 7)
        off = rng.randint(0, m - 1) if rng.random() < 0.6 else rng.randint(m, 3 * m + 1)     # an offset beyond n delays the first run further
        a = algos.RunEveryNPeriods(m, offset=off)
        exp = [(i - off) % m == 0 and i >= off for i in range(n)]
        par = {"n": m, "offset": off}
    fidx, fired = spy_backtest(a, idx)
    common.bump(cnt, "backtests")
    common.bump(cnt, "counting_evals", n)
    got = [d in fired for d in idx]
    if got != exp or len(fired) != sum(exp):
        i = ([k for k in range(n) if got[k] != exp[k]] or [0])[0]
        return ("c12_counting", dict(par, scheduler=which, row=i, date=str(idx[i]), fired=got[i], expected=exp[i], times_fired=len(fired), n=n)), which
    if which == "everyn":
        # a repeated call for the same date does not fire and does not advance the counter
        a2 = algos.RunEveryNPeriods(par["n"], offset=par["offset"])
        tgt = Target(idx)
        got2 = []
        for i, d in enumerate(idx):
            tgt.now = d
            r1 = bool(a2(tgt))
            reps = [bool(a2(tgt)) for _ in range(rng.randint(0, 2))]
            got2.append(r1)
            common.bump(cnt, "counting_evals", 1 + len(reps))
            if any(reps):
                return ("c12_counting", dict(par, scheduler="everyn", row=i, what="fired on a repeated call for the same date")), which
        if got2 != exp:
            return ("c12_counting", dict(par, scheduler="everyn", what="repeated calls advanced the counter", got=got2, expected=exp)), which
    return None, which


def run_case(unit, cs, idx_, build, params):
    rng = random.Random(cs)
    cnt = {}
    if unit == "enum":
        start = YEAR_STARTS[idx_ // len(FREQS)]
        freq = FREQS[idx_ % len(FREQS)]
        s0 = pd.Timestamp(start) + (pd.Timedelta(hours=9) if freq == "13h" else pd.Timedelta(0))
        idx = pd.date_range(s0, periods=30 if freq != "W-FRI" else 8, freq=freq)
        viol, sigs, nt = check_index("enum:" + freq, idx, rng, cnt, n_bt=4)
        sample = {"start": start, "freq": freq, "n": len(idx)}
    else:
        ikind, idx = gen_index(rng)
        viol, sigs, nt = check_index(ikind, idx, rng, cnt, n_bt=2)
        v2, which = check_counting(idx, rng, cnt)
        sigs.add((ikind, which))
        viol = viol or v2
        sample = {"index_kind": ikind, "start": str(idx[0]), "end": str(idx[-1]), "n": len(idx), "counting": which}
    r = common.result(common.VIOL if viol else common.HELD, sig=None, nt=True, cnt=cnt, sample=sample,
                      mech=viol[0] if viol else None, witness=dict(viol[1], case_seed=cs) if viol else None)
    r["sigs"] = [list(s) for s in sigs]
    return r
