"""Small shared helpers: seeds, JSON-safe conversion, verdict constructors, tolerances."""
import hashlib
import math

import numpy as np

HELD, VIOL, OOD, INC = "held", "violated", "ood", "inconclusive"

REL = 1e-9          # relative tolerance of money identities (x gross exposure of the whole tree)
GROSS_MAX = 1e15    # above this cents are no longer representable -> out of domain
QTY_MAX = 1e12

GUARD_MSGS = (
    "Newton Method like root search for quantity is stuck",
    "the amount we are trying to raise has gotten bigger",
    "Potentially infinite loop detected",
)


def case_seed(seed, prop, unit, idx):
    h = hashlib.sha256(("%s:%s:%s:%s" % (seed, prop, unit, idx)).encode()).digest()
    return int.from_bytes(h[:6], "big")


def js(x):
    """Make x JSON-serialisable (numpy scalars, timestamps, NaN kept as strings)."""
    import pandas as pd

    if isinstance(x, dict):
        return {str(k): js(v) for k, v in x.items()}
    if isinstance(x, (list, tuple, set, frozenset)):
        return [js(v) for v in x]
    if isinstance(x, (np.bool_, bool)):
        return bool(x)
    if isinstance(x, (np.integer,)):
        return int(x)
    if isinstance(x, (np.floating, float)):
        x = float(x)
        if math.isnan(x):
            return "nan"
        if math.isinf(x):
            return "inf" if x > 0 else "-inf"
        return x
    if isinstance(x, (int, str)) or x is None:
        return x
    if isinstance(x, pd.Timestamp):
        return str(x)
    if isinstance(x, np.ndarray):
        return js(x.tolist())
    if isinstance(x, (pd.Series, pd.Index)):
        return js(list(x))
    return repr(x)[:200]


def result(v, sig=None, nt=False, cnt=None, res=None, witness=None, mech=None, sample=None, why=None):
    """Per-case result record.

    v       verdict: held | violated | ood | inconclusive
    sig     signature used for counting distinct cases
    nt      non-trivial by the property's stated rule
    cnt     counters to be summed over cases (what the monitors observed)
    res     residuals to be max-ed over cases
    witness violation details (JSON-able)
    mech    mechanism tag of a violation (matched against known_findings.json)
    why     reason for ood / inconclusive
    """
    r = {"v": v, "sig": sig, "nt": bool(nt), "cnt": cnt or {}, "res": res or {}}
    if witness is not None:
        r["witness"] = js(witness)
    if mech is not None:
        r["mech"] = mech
    if sample is not None:
        r["sample"] = js(sample)
    if why is not None:
        r["why"] = why
    return r


def is_guard_exc(e):
    s = str(e)
    return any(m in s for m in GUARD_MSGS)


def close(a, b, scale, rel=REL):
    return abs(a - b) <= rel * (1.0 + abs(scale))


def bump(d, k, n=1):
    d[k] = d.get(k, 0) + n


def mx(d, k, v):
    if v is None or (isinstance(v, float) and math.isnan(v)):
        return
    if v > d.get(k, 0.0):
        d[k] = float(v)
