"""Monitors for the W1 op-sequence driver (C01, C02, C03, C07, C08). Each observes the real tree at
quiescent points (after a public call returned) and decides with an independent oracle."""
import copy
import random

import numpy as np
import pandas as pd

from bt.core import SecurityBase, StrategyBase

from . import common, instrument as ins
from .common import bump, mx

REL = common.REL


def check_identity(root, who="real", px=None):
    """C01 balance-sheet identity through the public properties. Returns (list of (mech, witness), evaluations).
    px(sec) -> the input price of the security at root.now (independent of the tree); without it the security's own price is read,
    but only AFTER its value (reading `price` brings an idle security up to date and would hide a stale `value`)."""
    out = []
    n = 0
    root.value  # refreshes the tree if stale
    g = ins.gross(root)
    t = REL * (1.0 + g)
    members = root.members
    secvals = {}
    for m in members:
        if not isinstance(m, StrategyBase):
            secvals[id(m)] = (m.value, m.weight, m.position)     # as the parent sees them, before any per-security refresh
    for m in members:
        if isinstance(m, StrategyBase):
            kids = list(m.children.values())
            s = m.capital + sum(c.value for c in kids)
            n += 1
            if not abs(m.value - s) <= t:
                out.append(("c01_value_sum", {"tree": who, "node": m.full_name, "value": m.value, "capital": m.capital, "children": {c.name: c.value for c in kids}}))
            if not m.fixed_income:
                for c in kids:
                    pv = m.value
                    w = c.weight
                    exp = c.value / pv if abs(pv) > 1e-16 else 0.0
                    n += 1
                    if not abs(w - exp) <= 1e-9 * (1.0 + abs(exp)):
                        out.append(("c01_weight", {"tree": who, "node": c.full_name, "weight": w, "expected": exp, "value": c.value, "parent_value": pv,
                                                   "is_strategy": isinstance(c, StrategyBase), "root_bankrupt": bool(root.bankrupt)}))
    for m in members:
        if isinstance(m, StrategyBase):
            continue
        v, w_, pos = secvals[id(m)]
        n += 1
        price = px(m) if px is not None else None
        if price is None:
            price = m.price
        exp = 0.0 if pos == 0 else pos * price * m.multiplier
        if not (abs(v - exp) <= t + REL * abs(exp)):
            out.append(("c01_sec_value", {"tree": who, "node": m.full_name, "value": v, "position": pos, "price": price, "mult": m.multiplier}))
    return out, n


def row_identity(root, who="real"):
    """C01 on the recorded history alone: on every recorded date a strategy's value row equals its cash row plus its children's value rows, and a
    security's value row equals position x price x multiplier of the same rows. Whatever state a date ended in, its rows must describe ONE state.
    Returns (first (mech, witness) or None, evaluations)."""
    n = 0
    members = root.members
    rows = {}
    for m in members:
        d = m.data
        rows[id(m)] = d
    for m in members:
        d = rows[id(m)]
        vals = d["value"].to_numpy(dtype=float)
        if isinstance(m, StrategyBase):
            cash = d["cash"].to_numpy(dtype=float)
            kids = [c for c in m.children.values() if id(c) in rows]
            kv = [rows[id(c)]["value"].to_numpy(dtype=float) for c in kids]
            for i in range(len(vals)):
                s = cash[i] + sum(k[i] for k in kv)
                scale = 1.0 + abs(cash[i]) + sum(abs(k[i]) for k in kv)
                n += 1
                if not abs(vals[i] - s) <= REL * scale:
                    return ("c01_row_identity", {"tree": who, "node": m.full_name, "date": str(d.index[i]), "value_row": vals[i], "cash_row": cash[i],
                                                 "children_value_rows": {c.name: k[i] for c, k in zip(kids, kv)}}), n
        else:
            pos = d["position"].to_numpy(dtype=float)
            px = m.prices.to_numpy(dtype=float)
            for i in range(len(vals)):
                n += 1
                exp = 0.0 if pos[i] == 0 else pos[i] * px[i] * m.multiplier
                if not abs(vals[i] - exp) <= REL * (1.0 + abs(exp)):
                    return ("c01_row_identity", {"tree": who, "node": m.full_name, "date": str(d.index[i]), "value_row": vals[i], "position_row": pos[i],
                                                 "price_row": px[i], "mult": m.multiplier}), n
    return None, n


def trees(root):
    """the real tree plus every paper-trading shadow reachable from it"""
    out = [("real", root)]
    for m in root.members:
        if isinstance(m, StrategyBase) and getattr(m, "_paper_trade", False) and getattr(m, "_paper", None) is not None:
            for w, r in trees(m._paper):
                out.append(("paper:" + m.full_name + ("" if w == "real" else "/" + w), r))
    return out


class Identity(object):
    """C01"""

    def __init__(self):
        self.snaps = []   # per date: {(tree, full_name): (value, cash|None, position|None, notional)}
        self.bankrupt_seen = False

    def _check(self, drv, where):
        def px(sec):
            if sec.name in drv.data.columns:
                return float(drv.data[sec.name].iloc[drv.di])
            return None

        for who, r in trees(drv.root):
            v, n = check_identity(r, who, px)
            bump(drv.cnt, "identity_evals", n)
            for mech, w in v:
                w["where"] = where
                if mech == "c01_weight" and w["is_strategy"] and w["root_bankrupt"] and not self.bankrupt_seen:
                    mech = "k5_weight"
                drv.violation(mech, **w)
        if drv.root.bankrupt:
            self.bankrupt_seen = True
            bump(drv.cnt, "obs_bankrupt")

    def after_op(self, drv, op, info):
        self._check(drv, "after %s" % op["op"])

    def end_of_date(self, drv, di, dt):
        self._check(drv, "end of date")
        snap = {}
        for who, r in trees(drv.root):
            for m in r.members:
                if isinstance(m, StrategyBase):
                    snap[(who, m.full_name)] = (m.value, m.capital, None, m.notional_value)
                else:
                    snap[(who, m.full_name)] = (m.value, None, m.position, m.notional_value)
        self.snaps.append(snap)

    def end(self, drv):
        # recorded rows equal the end-of-date state
        for who, r in trees(drv.root):
            v, n = row_identity(r, who)
            bump(drv.cnt, "row_identity_evals", n)
            if v:
                drv.violation(v[0], **v[1])
                return
        for who, r in trees(drv.root):
            g = REL * (1 + ins.gross(r))
            for m in r.members:
                key = (who, m.full_name)
                vals = m.data["value"].to_numpy(dtype=float)
                notl = m.data["notional_value"].to_numpy(dtype=float)
                cash = m.data["cash"].to_numpy(dtype=float) if isinstance(m, StrategyBase) else None
                pos = m.data["position"].to_numpy(dtype=float) if isinstance(m, SecurityBase) else None
                for i, snap in enumerate(self.snaps):
                    if key in snap:
                        ev, ec, ep, en = snap[key]
                    else:
                        ev, ec, ep, en = 0.0, (0.0 if cash is not None else None), (0.0 if pos is not None else None), 0.0
                    bump(drv.cnt, "row_evals")
                    bad = None
                    if not abs(vals[i] - ev) <= g + REL * abs(ev):
                        bad = ("value", vals[i], ev)
                    elif not abs(notl[i] - en) <= g + REL * abs(en):
                        bad = ("notional_value", notl[i], en)
                    elif cash is not None and not abs(cash[i] - ec) <= g + REL * abs(ec):
                        bad = ("cash", cash[i], ec)
                    elif pos is not None and not (pos[i] == ep or abs(pos[i] - ep) <= 1e-12 * abs(ep)):
                        bad = ("position", pos[i], ep)
                    if bad:
                        drv.violation("c01_row", tree=who, node=m.full_name, date_index=i, column=bad[0], recorded=bad[1], end_of_date_state=bad[2],
                                      existed=key in snap)
                        return


def costs_of(events, root, kind):
    c = 0.0
    n = 0
    for e in events:
        if e["k"] == "trade" and e["root"] is root:
            _, f, sp = ins.trade_costs(e, kind)
            c += f + sp
            n += 1
    return c, n


class Conservation(object):
    """C02: per operation and per date"""

    def start(self, drv):
        self.prev = None  # (V, {sec full_name: (pos, price, mult)})
        self.day_ext = 0.0
        self.day_mark = 0

    def before_op(self, drv, op):
        self.pre_v = drv.root.value
        self.pre_g = ins.gross(drv.root)

    def after_op(self, drv, op, info):
        root = drv.root
        costs, n = costs_of(info["events"], root, drv.spec["comm"])
        ext = info["ext_flow"] + info["ext_nonflow"]
        exp = self.pre_v + ext - costs
        gg = max(self.pre_g, ins.gross(root))
        t = REL * (1 + gg + abs(ext))
        bump(drv.cnt, "conservation_op_evals")
        d = abs(info["post_v"] - exp)
        mx(drv.res, "conservation_op_rel", d / (1 + gg))
        if not d <= t:
            drv.violation("c02_op", op=op, value_before=self.pre_v, value_after=info["post_v"], external=ext, costs=costs, trades=n, diff=info["post_v"] - exp)
        self.day_ext += ext

    def end_of_date(self, drv, di, dt):
        root = drv.root
        V = root.value
        # every trade of the date, including liquidation trades triggered by an update outside any driver operation
        day_costs, _ = costs_of(ins.EV[self.day_mark:], root, drv.spec["comm"])
        self.day_mark = len(ins.EV)
        secs = {}
        for m in ins.securities(root):
            px = drv.data[m.name].iloc[di] if m.name in drv.data.columns else float("nan")
            secs[m.full_name] = (m.position, px, m.multiplier)
        if self.prev is not None:
            pv, psecs = self.prev
            mtm = 0.0
            g = 0.0
            for name, (pos, px, mult) in psecs.items():
                if pos != 0:
                    npx = secs[name][1] if name in secs else float("nan")
                    mtm += pos * (npx - px) * mult
                    g += abs(pos * px * mult)
            exp = pv + mtm + self.day_ext - day_costs
            gg = g + ins.gross(root) + abs(pv)
            t = REL * (1 + gg + abs(self.day_ext))
            bump(drv.cnt, "conservation_date_evals")
            mx(drv.res, "conservation_date_rel", abs(V - exp) / (1 + gg))
            if not abs(V - exp) <= t:
                drv.violation("c02_date", date_index=di, value=V, expected=exp, prev_value=pv, mtm=mtm, external=self.day_ext, costs=day_costs)
        self.prev = (V, secs)
        self.day_ext = 0.0


class Index(object):
    """C03 oracle A: the recurrence, evaluated after every operation and at every end of date, with flows from the event log."""

    def start(self, drv):
        self.P_prev = 100.0
        self.V_prev = 0.0
        self.F = 0.0       # flows today from the event log
        self.mark = 0
        self._pre = None

    def _acc(self, drv):
        for e in ins.EV[self.mark:]:
            if e["k"] == "adjust" and e["node"] is drv.root and e["flow"] and e.get("ctx") is None:
                self.F += e["amount"]     # external: issued by the driver, not by bt while booking a trade or a transfer
        self.mark = len(ins.EV)

    def _check(self, drv, where):
        root = drv.root
        p = root.price
        v = root.value
        self._acc(drv)
        base = self.V_prev + self.F
        g = ins.gross(root) + abs(self.V_prev) + abs(self.F)
        if abs(base) > 1e-9 * (1 + g):
            exp = self.P_prev * v / base
            bump(drv.cnt, "recurrence_evals")
            # relative error of the ratio is bounded by cancellation in the base
            rel = 1e-9 * (1 + g / abs(base))
            mx(drv.res, "recurrence_err_over_tol", abs(p - exp) / (rel * (1 + abs(exp))))
            if not abs(p - exp) <= rel * (1 + abs(exp)):
                drv.violation("c03_recurrence", where=where, price=p, expected=exp, prev_price=self.P_prev, value=v, prev_value=self.V_prev, flows_today=self.F)
        else:
            bump(drv.cnt, "recurrence_skipped_zero_base")

    def before_op(self, drv, op):
        p = drv.root.price
        v = drv.root.value
        self._acc(drv)
        self._pre = (p, v, self.F)

    def after_op(self, drv, op, info):
        pre = self._pre
        self._check(drv, "after %s" % op["op"])
        # flow neutrality, directly: a pure flow on the root, arriving when there is no P&L yet today, leaves the index where it was
        if op["op"] == "adjust" and op["node"] == "root" and op["flow"] and pre is not None and not drv.viols:
            pre_p, pre_v, pre_f = pre
            g = ins.gross(drv.root) + abs(self.V_prev) + abs(self.F) + abs(op["amount"])
            b0 = self.V_prev + pre_f
            b1 = b0 + op["amount"]
            if abs(pre_v - b0) <= 1e-12 * (1 + g) and min(abs(b0), abs(b1)) > 1e-6 * (1 + g):
                bump(drv.cnt, "pure_flow_obs")
                p = drv.root.price
                rel = 1e-9 * (1 + g / min(abs(b0), abs(b1)))
                if not abs(p - pre_p) <= rel * (1 + abs(p)):
                    drv.violation("c03_flow_moves_index", op=op, price_before=pre_p, price_after=p)

    def end_of_date(self, drv, di, dt):
        self._check(drv, "end of date")
        root = drv.root
        rec = root.flows.iloc[-1]
        bump(drv.cnt, "flow_row_evals")
        if not abs(rec - self.F) <= 1e-9 * (1 + abs(self.F) + ins.gross(root)):
            drv.violation("c03_flows_row", date_index=di, recorded=rec, from_event_log=self.F)
        self.P_prev = root.price
        self.V_prev = root.value
        self.F = 0.0
        self._pre = None


class Ledger(object):
    """C07: per-node cash ledger from recorded rows, cross-checked against the event log; exactly-once booking of every trade."""

    def start(self, drv):
        self.direct = {}   # (date index, node full_name, 'flow'|'nonflow') -> amount

    def after_op(self, drv, op, info):
        for node_path, is_flow, amount in info.get("direct", []):
            k = (drv.di, node_path, "flow" if is_flow else "nonflow")
            self.direct[k] = self.direct.get(k, 0.0) + amount
        # exactly-once: each trade is matched to exactly one non-flow adjust on the security's own parent
        evs = [e for e in info["events"] if e["root"] is drv.root]
        kind = drv.spec["comm"]
        for e in evs:
            if e["k"] != "trade":
                continue
            outlay, f, sp = ins.trade_costs(e, kind)
            cands = [a for a in evs if a["k"] == "adjust" and a["node"] is e["parent"] and not a["flow"] and a.get("_matched") is None
                     and abs(a["amount"] + outlay + f) <= 1e-9 * (1 + abs(outlay) + abs(f)) and abs(a["fee"] - f) <= 1e-9 * (1 + abs(f))]
            bump(drv.cnt, "trade_booking_evals")
            if not cands:
                near = [(a["amount"], a["fee"], a["flow"], a["node"].full_name) for a in evs if a["k"] == "adjust"][:6]
                drv.violation("c07_trade_booking", trade={"sec": e["sec"].full_name, "q": e["q"], "p": e["p"], "cp": e["cp"], "m": e["m"], "bo": e["bo"]},
                              expected_amount=-(outlay + f), expected_fee=f, adjusts_seen=near)
                return
            cands[0]["_matched"] = e["seq"]
        for a in evs:
            if a["k"] == "adjust" and a["fee"] != 0.0 and a.get("_matched") is None:
                drv.violation("c07_unmatched_fee", node=a["node"].full_name, amount=a["amount"], fee=a["fee"])
                return

    def end(self, drv):
        root = drv.root
        kind = drv.spec["comm"]
        trades = {}
        for e in ins.EV:
            if e["k"] == "trade" and e["root"] is root:
                di = drv.dates.index(e["date"])
                trades.setdefault((di, id(e["parent"])), []).append(e)
        nd = len(drv.dates)
        for s in ins.strategies(root):
            own = [c for c in s.children.values() if isinstance(c, SecurityBase)]
            subs = [c for c in s.children.values() if isinstance(c, StrategyBase)]
            cash = s.data["cash"].to_numpy(dtype=float)
            flows = s.data["flows"].to_numpy(dtype=float)
            fees = s.data["fees"].to_numpy(dtype=float)
            for i in range(nd):
                prev = cash[i - 1] if i > 0 else 0.0
                outl = sum(c.data["outlay"].iloc[i] for c in own)
                tosubs = sum(c.data["flows"].iloc[i] - self.direct.get((i, c.full_name, "flow"), 0.0) for c in subs)
                recv = flows[i] + self.direct.get((i, s.full_name, "nonflow"), 0.0)
                exp = recv - outl - fees[i] - tosubs
                sc = 1 + abs(cash[i]) + abs(prev) + abs(outl) + abs(recv) + abs(tosubs) + sum(abs(c.data["outlay"].iloc[i]) for c in own)
                bump(drv.cnt, "ledger_evals")
                mx(drv.res, "ledger_rel", abs(cash[i] - prev - exp) / sc)
                if not abs(cash[i] - prev - exp) <= REL * sc:
                    drv.violation("c07_ledger", node=s.full_name, date_index=i, dcash=cash[i] - prev, expected=exp, received=recv, outlays=outl, fees=fees[i], to_subs=tosubs)
                    return
                tl = trades.get((i, id(s)), [])
                efee = sum(ins.trade_costs(e, kind)[1] for e in tl)
                bump(drv.cnt, "fee_row_evals")
                if not abs(fees[i] - efee) <= REL * (1 + abs(efee)):
                    drv.violation("c07_fee_row", node=s.full_name, date_index=i, recorded_fees=fees[i], fees_from_trade_log=efee, trades=len(tl))
                    return
                eo = {}
                for e in tl:
                    eo[id(e["sec"])] = eo.get(id(e["sec"]), 0.0) + ins.trade_costs(e, kind)[0]
                for c in own:
                    r = c.data["outlay"].iloc[i]
                    x = eo.get(id(c), 0.0)
                    ab = sum(abs(ins.trade_costs(e, kind)[0]) for e in tl if e["sec"] is c)
                    bump(drv.cnt, "outlay_row_evals")
                    if not abs(r - x) <= REL * (1 + ab):
                        drv.violation("c07_outlay_row", node=c.full_name, date_index=i, recorded_outlay=r, outlay_from_trade_log=x)
                        return
        bump(drv.cnt, "comm_fn_calls", drv.comm.calls)


class Idempotence(object):
    """C08 a/c/d"""

    def __init__(self, cs):
        self.rng = random.Random(cs ^ 0x5EED)
        self.past = None
        self.k5_window = False

    def after_op(self, drv, op, info):
        root = drv.root
        rng = self.rng
        # K5 lasts from the update that declares the bankruptcy until the next completed ROOT update (a redundant update of a sub-strategy
        # node does not end it)
        if root.bankrupt and not self.k5_window:
            self.k5_window = True
            self.k5_pending = True
        declared_now = bool(root.bankrupt) and getattr(self, "k5_pending", False)
        a = ins.raw(root)
        calls = []
        for _ in range(rng.randint(1, 3)):
            if rng.random() < 0.6:
                root.update(drv.dt)
                calls.append("root.update")
            else:
                m = rng.choice(ins.strategies(root))
                m.update(drv.dt)
                calls.append("%s.update" % m.full_name)
        if "root.update" in calls:
            self.k5_pending = False
        b = ins.raw(root)
        d = ins.diff_raw(a, b)
        bump(drv.cnt, "idempotence_evals")
        if d:
            mech = "c08_idempotence"
            if declared_now and all(f == "_weight" for _, f in d):
                mech = "k5_weight"
            drv.violation(mech, after=op, extra_calls=calls, changed=d[:6])
            return
        if rng.random() < 0.3:
            self._no_future(drv)

    def _no_future(self, drv):
        now = drv.dt
        for m in drv.root.members:
            props = ["prices", "values", "notional_values", "positions", "outlays"]
            if isinstance(m, StrategyBase):
                props += ["cash", "fees", "flows", "universe"]
                if m._bidoffer_set:
                    props += ["bidoffers_paid"]
            elif m._bidoffer_set:
                props += ["bidoffers", "bidoffers_paid"]
            for p in props:
                s = getattr(m, p)
                bump(drv.cnt, "no_future_evals")
                if len(s.index) and s.index.max() > now:
                    drv.violation("c08_beyond_now", node=m.full_name, accessor=p, last=str(s.index.max()), now=str(now))
                    return

    def date_start(self, drv, di, dt):
        if self.past is not None:
            cur = {k: (c, a[: self.past_n]) for k, (c, a) in ins.frames(drv.root).items()}
            bump(drv.cnt, "append_only_evals")
            for k, (c, a) in self.past.items():
                if k not in cur:
                    drv.violation("c08_append_only", node=k, what="node vanished")
                    return
                c2, a2 = cur[k]
                if c != c2 or not np.array_equal(a, a2, equal_nan=True):
                    bad = np.argwhere(~((a == a2) | (np.isnan(a) & np.isnan(a2)))) if a.shape == a2.shape else []
                    drv.violation("c08_append_only", node=k, date_index_now=di, first_changed=[int(x) for x in bad[0]] if len(bad) else None, columns=c)
                    return

    def end_of_date(self, drv, di, dt):
        self.past_n = di + 1
        self.past = {k: (c, a[: di + 1].copy()) for k, (c, a) in ins.frames(drv.root).items()}
        if self.rng.random() < 0.5:
            self._no_future(drv)


class DerivedReads(object):
    """C08 b, against the ground truth: the frames a strategy assembles for the user (positions, outlays) equal what its securities hold and
    recorded - also when the pending changes were flushed by SOME OTHER read or a redundant update first (a frame cached on an earlier read of
    the same date must not be served after the tree moved on)."""

    def __init__(self, cs):
        self.rng = random.Random(cs ^ 0xD3A1)

    def after_op(self, drv, op, info):
        root = drv.root
        r = self.rng.random()
        try:
            if r < 0.4:
                root.value                     # flush through another accessor
            elif r < 0.7:
                root.update(drv.dt)            # flush through a redundant update
            for s in ins.strategies(root):
                for prop in ("positions", "outlays"):
                    got = getattr(s, prop)
                    exp = {}
                    for x in s.members:
                        if isinstance(x, SecurityBase):
                            v = getattr(x, prop)
                            exp[x.name] = exp[x.name] + v if x.name in exp else v
                    bump(drv.cnt, "derived_read_evals")
                    bad = None
                    if sorted(got.columns) != sorted(exp):
                        bad = {"columns": sorted(got.columns), "securities": sorted(exp)}
                    else:
                        for k, v in exp.items():
                            g = got[k]
                            if len(g) != len(v) or not np.array_equal(np.nan_to_num(g.to_numpy(dtype=float), nan=0.0), np.nan_to_num(v.to_numpy(dtype=float), nan=0.0)):
                                bad = {"column": k, "frame_tail": list(g.values)[-3:], "security_tail": list(v.values)[-3:]}
                                break
                    if bad:
                        drv.violation("c08_stale_frame", after=op, node=s.full_name, prop=prop, flushed_by=("value" if r < 0.4 else "update" if r < 0.7 else "the read itself"), **bad)
                        return
        except ZeroDivisionError:
            return
        except Exception as e:
            if common.is_guard_exc(e):
                return
            raise


class Freshness(object):
    """C08 b: with pending changes, the first read of ONE property equals that read after an explicit update (on deep copies)."""

    PROPS_ALL = ["value", "weight", "notional_value", "price", "prices", "values", "notional_values", "positions", "outlays"]
    PROPS_STRAT = ["cash", "fees", "flows"]

    def __init__(self, cs, p=0.5):
        self.rng = random.Random(cs ^ 0xF5E5)
        self.p = p

    def pending(self, drv, op):
        if self.rng.random() > self.p or op["op"] in ("read", "update"):
            return
        root = drv.root
        if not root.stale:
            bump(drv.cnt, "pending_not_stale")
            return
        A = copy.deepcopy(root)
        B = copy.deepcopy(root)
        names = [m.full_name for m in root.members]
        name = self.rng.choice(names)
        ma = [m for m in A.members if m.full_name == name][0]
        mb = [m for m in B.members if m.full_name == name][0]
        props = list(self.PROPS_ALL) + (self.PROPS_STRAT if isinstance(ma, StrategyBase) else ["position"])
        pr = self.rng.choice(props)
        try:
            va = getattr(ma, pr)
            B.update(B.now)
            vb = getattr(mb, pr)
        except ZeroDivisionError:
            return
        except Exception as e:
            if common.is_guard_exc(e):
                return
            raise

        def norm(v):
            if isinstance(v, (pd.Series, pd.DataFrame)):
                return (tuple(map(str, v.index)), v.to_numpy(dtype=float, na_value=np.nan).tobytes())
            return v

        bump(drv.cnt, "freshness_evals")
        if not ins.same(norm(va), norm(vb)):
            mech = "c08_stale_read"
            if pr == "position" and B.bankrupt and not root.bankrupt:
                # K15: `position` is documented as needing no refresh, but the pending update is the one that declares bankruptcy and liquidates
                mech = "k15_position_read_before_liquidating_update"
            drv.violation(mech, after=op, node=name, prop=pr, first_read=va if not hasattr(va, "index") else list(va.values)[-3:],
                          after_update=vb if not hasattr(vb, "index") else list(vb.values)[-3:])
