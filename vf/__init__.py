"""Runtime-monitoring machinery for pmorissette/bt (see /verif/DESIGN.md)."""
