"""Worker subprocess: runs a slice of cases of one (property, unit, build) and writes JSON lines.

usage: python -m vf.worker <task.json> <out.jsonl>
"""
import faulthandler
import json
import os
import signal
import sys
import time
import traceback
import warnings

faulthandler.enable()
warnings.filterwarnings("ignore")


class CaseTimeout(Exception):
    pass


def _alarm(signum, frame):
    raise CaseTimeout()


def main():
    task = json.load(open(sys.argv[1]))
    out = open(sys.argv[2], "w")
    import bt  # noqa: F401  (from the scratch copy on PYTHONPATH)
    import bt.core

    f = os.path.realpath(bt.core.__file__)
    root = os.path.realpath(task["bt_dir"])
    if not f.startswith(root + os.sep):
        out.write(json.dumps({"fatal": "bt imported from %s, expected under %s" % (f, root)}) + "\n")
        return 3
    if task["build"] == "so" and not f.endswith(".so"):
        out.write(json.dumps({"fatal": "compiled build requested but %s imported" % f}) + "\n")
        return 3
    if task["build"] == "py" and not f.endswith(".py"):
        out.write(json.dumps({"fatal": "interpreted build requested but %s imported" % f}) + "\n")
        return 3

    import importlib

    from vf import common

    mod = importlib.import_module("vf.props." + task["prop"].lower())
    signal.signal(signal.SIGALRM, _alarm)
    tmo = int(task.get("case_timeout", 60))
    for idx in task["indices"]:
        cs = common.case_seed(task["seed"], task["prop"], task["unit"], idx)
        t0 = time.time()
        try:
            signal.alarm(tmo)
            r = mod.run_case(task["unit"], cs, idx, task["build"], task.get("params") or {})
            signal.alarm(0)
        except CaseTimeout:
            r = common.result(common.INC, why="case timeout %ds" % tmo)
        except MemoryError:
            signal.alarm(0)
            r = common.result(common.INC, why="MemoryError")
        except Exception as e:  # harness error: never a verdict about bt
            signal.alarm(0)
            r = common.result(common.INC, why="harness error %s: %s" % (type(e).__name__, str(e)[:200]))
            r["trace"] = traceback.format_exc()[-1500:]
        rs = r if isinstance(r, list) else [r]
        for r in rs:
            r["idx"] = idx
            r["cs"] = cs
            r["t"] = round(time.time() - t0, 4)
            out.write(json.dumps(r, default=str) + "\n")
        out.flush()
    out.write(json.dumps({"done": True}) + "\n")
    out.close()
    return 0


if __name__ == "__main__":
    sys.exit(main())
