"""Orchestrator: builds scratch copies of /repo/bt, fans cases out to worker subprocesses,
aggregates what the monitors observed, classifies violations against known_findings.json,
writes evidence/<id>.json and sets the exit code (0 held, 1 violation, 2 inconclusive)."""
import argparse
import concurrent.futures as cf
import importlib
import json
import os
import shutil
import subprocess
import sys
import tempfile
import time

from . import build, common

VERIF = build.VERIF
NPROC = int(os.environ.get("VERIF_JOBS", "0")) or min(16, os.cpu_count() or 4)


def load_known():
    p = os.path.join(VERIF, "known_findings.json")
    if not os.path.exists(p):
        return []
    return json.load(open(p)).get("findings", [])


def _run_task(task, tmpdir, env, timeout):
    tid = task["tid"]
    tf = os.path.join(tmpdir, "task_%d.json" % tid)
    of = os.path.join(tmpdir, "out_%d.jsonl" % tid)
    json.dump(task, open(tf, "w"))
    status = "ok"
    try:
        p = subprocess.run([build.PY, "-m", "vf.worker", tf, of], env=env, cwd=VERIF, timeout=timeout,
                           stdout=subprocess.DEVNULL, stderr=subprocess.PIPE, text=True)
        if p.returncode != 0:
            status = "worker exit %s: %s" % (p.returncode, (p.stderr or "")[-300:])
    except subprocess.TimeoutExpired:
        status = "worker timeout %ss" % timeout
    recs = []
    done = False
    if os.path.exists(of):
        for line in open(of):
            try:
                r = json.loads(line)
            except ValueError:
                continue
            if r.get("done"):
                done = True
            elif "fatal" in r:
                status = "fatal: " + r["fatal"]
            else:
                recs.append(r)
    seen = {r["idx"] for r in recs}
    for idx in task["indices"]:
        if idx not in seen:
            recs.append({"v": common.INC, "why": status if status != "ok" else "worker died", "idx": idx, "cnt": {}, "res": {},
                         "sig": None, "nt": False})
    for r in recs:
        r["unit"] = task["unit"]
        r["build"] = task["build"]
    return recs, status, done


def run_check(prop, tier, seed, replay=None, jobs=None, only_unit=None, scale=1.0, quiet=False):
    t_start = time.time()
    mod = importlib.import_module("vf.props." + prop.lower())
    units = mod.plan(tier)
    if only_unit:
        units = [u for u in units if u["unit"] == only_unit]
    tmpdir = tempfile.mkdtemp(prefix="btvf_run_", dir=build.scratch_root())
    pydir = None
    notes = []
    try:
        pydir = build.make_interpreted()
        need_so = any("so" in u.get("builds", ["py"]) for u in units) or (replay and replay.get("build") == "so")
        sodir = None
        if need_so:
            sodir, why = build.get_compiled()
            if sodir is None:
                notes.append("compiled build unavailable (%s): compiled legs are inconclusive" % why)
        dirs = {"py": pydir, "so": sodir}
        tasks = []
        tid = 0
        planned = 0
        if replay:
            u = [x for x in mod.plan(replay.get("tier", tier)) if x["unit"] == replay["unit"]]
            params = replay.get("params") or (u[0].get("params") if u else {})
            tasks.append(dict(tid=0, prop=prop, unit=replay["unit"], build=replay["build"], indices=[replay["idx"]], seed=replay["seed"],
                              params=params, case_timeout=600, bt_dir=dirs[replay["build"]]))
        else:
            for u in units:
                n = max(1, int(round(u["n"] * scale))) if not u.get("fixed_n") else u["n"]
                only_b = os.environ.get("VERIF_BUILDS")
                planned += n * len(u.get("builds", ["py"])) if not only_unit else 0
                for b in u.get("builds", ["py"]):
                    if dirs.get(b) is None or (only_b and b not in only_b.split(",")):
                        continue
                    chunk = u.get("chunk") or max(1, min(400, -(-n // ((jobs or NPROC) * 3))))
                    for s in range(0, n, chunk):
                        tasks.append(dict(tid=tid, prop=prop, unit=u["unit"], build=b, indices=list(range(s, min(n, s + chunk))), seed=seed,
                                          params=dict(u.get("params") or {}, tier=tier), case_timeout=u.get("case_timeout", 60), bt_dir=dirs[b],
                                          _tmo=u.get("task_timeout", 1800 if tier == "quick" else 7200)))
                        tid += 1
        recs = []
        statuses = []

        def env_for(t):
            env = dict(os.environ)
            env["PYTHONPATH"] = t["bt_dir"] + os.pathsep + VERIF
            env.setdefault("PYTHONHASHSEED", "0")
            env["OMP_NUM_THREADS"] = env["OPENBLAS_NUM_THREADS"] = env["MKL_NUM_THREADS"] = "1"
            env["PYTHONDONTWRITEBYTECODE"] = "1"
            env["VERIF_BT_PY_DIR"] = pydir or ""
            env["VERIF_BT_SO_DIR"] = sodir or ""
            return env

        with cf.ThreadPoolExecutor(max_workers=jobs or NPROC) as ex:
            futs = [ex.submit(_run_task, {k: v for k, v in t.items() if k != "_tmo"}, tmpdir, env_for(t), t.get("_tmo", 1800)) for t in tasks]
            for f in futs:
                r, st, done = f.result()
                recs.extend(r)
                if st != "ok":
                    statuses.append(st)
        ran = sum(len(t["indices"]) for t in tasks)
        share = (ran / planned) if planned else 1.0
        if share < 0.999 and not replay:
            notes.append("only %.0f%% of the planned (unit x build) cases were run (VERIF_BUILDS / missing compiled build / --unit): coverage floors scaled accordingly" % (100 * share))
        return finish(mod, prop, tier, seed, recs, statuses, notes, t_start, replay, quiet, share)
    finally:
        shutil.rmtree(tmpdir, ignore_errors=True)
        if pydir:
            shutil.rmtree(pydir, ignore_errors=True)


def finish(mod, prop, tier, seed, recs, statuses, notes, t_start, replay, quiet, share=1.0):
    known = {k["mech"]: k for k in load_known() if k.get("status") == "known" and k.get("property") == prop and k.get("mech")}
    by_v = {}
    cnt = {}
    res = {}
    sigs = set()
    per_unit = {}
    why = {}
    samples = []
    viols = []
    kf_hits = {}
    total = 0
    for r in recs:
        n = int(r.get("n", 1))
        total += n
        by_v[r["v"]] = by_v.get(r["v"], 0) + n
        key = "%s/%s" % (r["unit"], r["build"])
        pu = per_unit.setdefault(key, {})
        pu[r["v"]] = pu.get(r["v"], 0) + n
        for sg in r.get("sigs") or []:
            sigs.add(json.dumps(sg, sort_keys=True, default=str))
        for k, v in (r.get("cnt") or {}).items():
            cnt[k] = cnt.get(k, 0) + v
        for k, v in (r.get("res") or {}).items():
            if v > res.get(k, 0.0):
                res[k] = v
        if r.get("nt") and r.get("sig") is not None and r["v"] in (common.HELD, common.VIOL):
            sigs.add(json.dumps(r["sig"], sort_keys=True, default=str))
        if r["v"] in (common.OOD, common.INC):
            w = "%s: %s" % (r["v"], (r.get("why") or "?")[:90])
            why[w] = why.get(w, 0) + n
        if r.get("sample") is not None and len(samples) < 4 and r["v"] == common.HELD and r.get("nt"):
            samples.append({"unit": r["unit"], "build": r["build"], "idx": r["idx"], "case": r["sample"]})
        if r["v"] == common.VIOL:
            m = r.get("mech")
            if m and m in known:
                kf_hits.setdefault(m, []).append(r)
            else:
                viols.append(r)
    decided = by_v.get(common.HELD, 0) + by_v.get(common.VIOL, 0)
    # a known finding may not grow: above its ceiling (share of all evaluations) the matched cases count as violations again
    ceil = getattr(mod, "KNOWN_CEILING", {})
    for m in list(kf_hits):
        n_m = sum(int(r.get("n", 1)) for r in kf_hits[m])
        lim = ceil.get(m, 0.05)
        if total and n_m / total > lim and not replay:
            for r in kf_hits[m][:3]:
                r = dict(r, mech=m + ":rate_above_ceiling")
                r["witness"] = dict(r.get("witness") or {}, known_finding_rate="%d of %d evaluations (ceiling %.3g)" % (n_m, total, lim))
                viols.append(r)

    # coverage floor -> inconclusive
    inconc = []
    fl = mod.floors(tier) if hasattr(mod, "floors") else {}
    if not replay:
        sc = max(0.05, min(1.0, share)) * (1.0 if share >= 0.999 else 0.9)
        if decided < fl.get("min_decided", 1) * sc:
            inconc.append("only %d decided cases (floor %d)" % (decided, fl.get("min_decided", 1) * sc))
        for k, v in (fl.get("counters") or {}).items():
            if cnt.get(k, 0) < v * sc:
                inconc.append("monitor counter %s=%d below floor %d" % (k, cnt.get(k, 0), v * sc))
        nd = by_v.get(common.OOD, 0) + by_v.get(common.INC, 0)
        if total and nd / total > fl.get("max_undecided_frac", 0.5):
            inconc.append("%d of %d cases undecided (%s)" % (nd, total, "; ".join("%s x%d" % kv for kv in sorted(why.items(), key=lambda kv: -kv[1])[:3])))
        ni = by_v.get(common.INC, 0)
        if total and ni / total > fl.get("max_inconclusive_frac", 0.05):
            inconc.append("%d of %d cases inconclusive (%s)" % (ni, total, "; ".join("%s x%d" % kv for kv in sorted(why.items(), key=lambda kv: -kv[1]) if kv[0].startswith("inconclusive"))[:300]))
        if len(sigs) < 2:
            inconc.append("fewer than 2 distinct non-trivial cases")

    # output
    lines = []
    for m, rs in sorted(kf_hits.items()):
        k = known[m]
        w = rs[0].get("witness") or {}
        lines.append("KNOWN-FINDING: property=%s %s [%s] %s -- %d case(s), e.g. %s" % (prop, k["id"], m, k["what"], len(rs), json.dumps(w, default=str)[:300]))
    rdir = os.path.join(os.environ.get("VERIF_REPLAY_DIR") or os.path.join(VERIF, "replay"), prop)
    vio_paths = []
    if viols:
        os.makedirs(rdir, exist_ok=True)
        seen_mech = {}
        for r in viols:
            mk = (r.get("mech") or "unclassified", r["unit"], r["build"])
            seen_mech[mk] = seen_mech.get(mk, 0) + 1
            if seen_mech[mk] > 3:
                continue
            path = os.path.join(rdir, "%s_%s_%s_%d_s%d.json" % (prop, r["unit"], r["build"], r["idx"], seed))
            json.dump({"property": prop, "unit": r["unit"], "build": r["build"], "idx": r["idx"], "seed": seed if not replay else replay["seed"],
                       "tier": tier, "case_seed": r.get("cs"), "mech": r.get("mech"), "witness": r.get("witness")}, open(path, "w"), indent=1, default=str)
            vio_paths.append(path)
            lines.append("VIOLATION property=%s replay=%s" % (prop, path))
            lines.append("  mechanism=%s witness=%s" % (r.get("mech"), json.dumps(r.get("witness"), default=str)[:600]))
        lines.append("  (%d violating case(s) in total: %s)" % (len(viols), ", ".join("%s/%s/%s x%d" % (k + (v,)) for k, v in seen_mech.items())))
    for s in statuses[:5]:
        notes.append("worker: " + s[:200])
    if inconc and not viols:
        lines.append("INCONCLUSIVE property=%s reason=%s" % (prop, " | ".join(inconc)))

    wall = time.time() - t_start
    if not samples:
        for r in recs:
            if r.get("sample") is not None:
                samples.append({"unit": r["unit"], "build": r["build"], "idx": r["idx"], "case": r["sample"]})
                if len(samples) >= 3:
                    break
    ev = {
        "property_id": prop,
        "tier": tier,
        "seed": int(seed),
        "level": getattr(mod, "LEVEL", "exploration"),
        "coverage": {
            "evaluations": total,
            "distinct_nontrivial": len(sigs),
            "rule": getattr(mod, "RULE", ""),
            "samples": samples or [{"note": "no sample recorded"}],
            "decided": decided,
            "verdicts": by_v,
            "per_unit_build": per_unit,
            "monitor_counters": cnt,
            "max_residuals": res,
            "undecided_reasons": dict(sorted(why.items(), key=lambda kv: -kv[1])[:12]),
            "known_finding_hits": {m: len(rs) for m, rs in kf_hits.items()},
            "notes": notes,
            "inconclusive": inconc,
        },
        "assumptions": getattr(mod, "ASSUMPTIONS", []),
        "wall_s": round(wall, 2),
        "violations": len(viols),
    }
    if hasattr(mod, "EXHAUSTIVE") and mod.EXHAUSTIVE and not viols and not inconc:
        ev["coverage"]["exhaustive"] = bool(mod.EXHAUSTIVE(tier, cnt)) if callable(mod.EXHAUSTIVE) else True
    if hasattr(mod, "env_info"):
        ev["coverage"]["environment"] = mod.env_info()
    if not replay:
        evdir = os.environ.get("VERIF_EVIDENCE_DIR") or os.path.join(VERIF, "evidence")
        os.makedirs(evdir, exist_ok=True)
        json.dump(ev, open(os.path.join(evdir, prop + ".json"), "w"), indent=1, default=str)
    if not quiet:
        print("%s tier=%s seed=%s: %d cases, %s, %d distinct non-trivial, %.1fs" % (prop, tier, seed, total, json.dumps(by_v), len(sigs), wall))
        if cnt:
            print("  observed: " + ", ".join("%s=%s" % kv for kv in sorted(cnt.items())))
        if res:
            print("  max residuals: " + ", ".join("%s=%.3g" % kv for kv in sorted(res.items())))
        for w, n in sorted(why.items(), key=lambda kv: -kv[1])[:6]:
            print("  undecided x%d %s" % (n, w))
        for n in notes:
            print("  note: " + n)
    for ln in lines:
        print(ln)
    sys.stdout.flush()
    code = 1 if viols else (2 if inconc else 0)
    return code, ev, viols


def main(argv=None):
    ap = argparse.ArgumentParser(prog="check")
    ap.add_argument("prop")
    ap.add_argument("--tier", default=os.environ.get("VERIF_TIER") or "quick", choices=["quick", "thorough"])
    ap.add_argument("--seed", type=int, default=int(os.environ.get("VERIF_SEED") or 0))
    ap.add_argument("--replay")
    ap.add_argument("--unit")
    ap.add_argument("--jobs", type=int)
    ap.add_argument("--scale", type=float, default=float(os.environ.get("VERIF_SCALE") or 1.0))
    a = ap.parse_args(argv)
    prop = a.prop.upper()
    replay = None
    if a.replay:
        rp = json.load(open(a.replay))
        replay = dict(unit=rp["unit"], build=rp["build"], idx=rp["idx"], seed=rp["seed"], tier=rp.get("tier", a.tier))
        prop = rp["property"]
    code, ev, viols = run_check(prop, a.tier, a.seed, replay=replay, jobs=a.jobs, only_unit=a.unit, scale=a.scale)
    if replay:
        print("REPLAY %s: %s" % (a.replay, "violation reproduced" if viols else "no violation on the current tree"))
    return code


if __name__ == "__main__":
    sys.exit(main())
