"""W2: generated backtests over the stock algos (explicit JSON-able specs).

gen(cs, **opts)   -> spec
make(spec)        -> dict(strategy template, data, additional_data, kwargs for bt.Backtest)
run(spec, ...)    -> Run (finished Backtest + event log slices)
"""
import copy
import random

import numpy as np
import pandas as pd

import bt
from bt import algos
from bt.core import Security, SecurityBase, Strategy, StrategyBase

from . import common, instrument as ins


# ------------------------------------------------------------------ spec -> objects
def _val(v, ctx):
    if isinstance(v, dict):
        if "$off" in v:
            return pd.DateOffset(**v["$off"])
        if "$date" in v:
            return ctx["dates"][v["$date"]]
        if "$algo" in v:
            return mk_algo(v["$algo"], ctx)
        if "$algos" in v:
            return [mk_algo(a, ctx) for a in v["$algos"]]
        if "$frame" in v:
            return ctx["frames"][v["$frame"]]
        return {k: _val(x, ctx) for k, x in v.items()}
    if isinstance(v, list):
        return [_val(x, ctx) for x in v]
    return v


class QuietFlow(bt.Algo):
    """a user algo booking a capital flow through the public API with update=False (the backtest loop refreshes after the stack)"""

    def __init__(self, amount):
        super(QuietFlow, self).__init__()
        self.amount = float(amount)

    def __call__(self, target):
        target.adjust(self.amount, update=False)
        return True


class SetCash(bt.Algo):
    """a user algo asking Rebalance to keep a cash reserve (temp['cash'] is read by the stock Rebalance)"""

    def __init__(self, fraction):
        super(SetCash, self).__init__()
        self.fraction = float(fraction)

    def __call__(self, target):
        target.temp["cash"] = self.fraction
        return True


class Fills(bt.Algo):
    """a user algo executing scripted quantity trades through the public API: several fills of one security on the same date,
    back to back (no read or update of the tree in between)"""

    def __init__(self, fills):
        super(Fills, self).__init__()
        self.fills = fills          # [(date, ticker, [q1, q2, ...])]

    def __call__(self, target):
        for d, tk, qs in self.fills:
            if d == target.now:
                px = target.universe[tk].loc[target.now] if tk in target.universe.columns else float("nan")
                if px == px and px > 0:
                    for q in qs:
                        target.transact(q, child=tk)
        return True


class Peek(bt.Algo):
    """a monitoring user algo: reads the strategy's aggregated reports before the stack trades"""

    def __call__(self, target):
        target.positions
        target.outlays
        len(target.members)
        return True


USER_ALGOS = {"QuietFlow": QuietFlow, "SetCash": SetCash, "Fills": Fills, "Peek": Peek}


def mk_algo(d, ctx):
    if "$run_always" in d:
        return algos.run_always(mk_algo(d["$run_always"], ctx))
    cls = USER_ALGOS.get(d["a"]) or getattr(algos, d["a"])
    args = [_val(x, ctx) for x in d.get("args", [])]
    kw = {k: _val(x, ctx) for k, x in d.get("kw", {}).items()}
    a = cls(*args, **kw)
    if ctx.get("wrap"):
        a = ctx["wrap"](a, d)
    return a


def mk_children(kids, ctx):
    if kids is None:
        return None
    out = []
    for k in kids:
        if k["type"] == "lazy":
            out.append(k["name"])
        elif k["type"] == "sec":
            out.append(Security(k["name"], multiplier=k.get("mult", 1)))
        else:
            out.append(mk_strategy(k, ctx))
    return out


def mk_strategy(node, ctx):
    stack = [mk_algo(a, ctx) for a in node["algos"]]
    if ctx.get("stack_hook"):
        stack = ctx["stack_hook"](stack, node)
    s = Strategy(node["name"], stack, children=mk_children(node.get("children"), ctx))
    _apply_node_comms(s, node)
    return s


def _apply_node_comms(s, node):
    """per-definition commission schedules (top-down, because set_commissions recurses into strategy children)"""
    if node.get("comm"):
        s.set_commissions(ins.Comm(node["comm"]))      # also for "none": it overrides what a parent pushed down
    for k in node.get("children") or []:
        if k["type"] == "strat" and k["name"] in s.children:
            _apply_node_comms(s.children[k["name"]], k)


def frames_of(spec):
    idx = pd.DatetimeIndex(pd.date_range(spec["start"], periods=spec["nd"], freq=spec["freq"]))
    data = pd.DataFrame(np.array(spec["prices"], dtype=float), index=idx, columns=spec["tickers"])
    extras = {}
    for name, f in spec["extras"].items():
        if "table" in f:
            t = f["table"]
            extras[name] = pd.DataFrame({"date": [idx[i] for i in t["date_rows"]]}, index=list(t["index"]))
            continue
        if "dict" in f:
            extras[name] = {k: pd.DataFrame(np.array(g["values"], dtype=float), index=idx, columns=g["cols"]) for k, g in f["dict"].items()}
            continue
        rows = f.get("rows")
        ix = idx if rows is None else idx[rows]
        arr = np.array(f["values"], dtype=object if f.get("bool") else float)
        if f.get("bool"):
            arr = np.array(f["values"], dtype=bool)
        if f.get("series"):
            extras[name] = pd.Series(arr, index=ix)
        else:
            extras[name] = pd.DataFrame(arr, index=ix, columns=f["cols"])
    return idx, data, extras


def make(spec, wrap=None, stack_hook=None, data=None, extras=None):
    idx, d0, e0 = frames_of(spec)
    data = d0 if data is None else data
    extras = e0 if extras is None else extras
    ctx = {"dates": list(idx), "frames": extras, "wrap": wrap, "stack_hook": stack_hook}
    strat = mk_strategy(spec["root"], ctx)
    comm = ins.Comm(spec["comm"])
    kw = dict(integer_positions=spec["integer"], commissions=(comm if spec["comm"] != "none" else None), initial_capital=spec["capital"],
              additional_data=dict(extras))
    return {"strategy": strat, "data": data, "extras": extras, "kw": kw, "comm": comm, "dates": idx}


class Run(object):
    pass


def run(spec, wrap=None, stack_hook=None, data=None, extras=None, seed_rng=True, on_built=None):
    """Build and run the backtest on the real bt code with the event log on. Exceptions from bt.run are captured."""
    ins.install()
    m = make(spec, wrap=wrap, stack_hook=stack_hook, data=data, extras=extras)
    if seed_rng:
        random.seed(spec["cs"])
        np.random.seed(spec["cs"] % (2 ** 32))
    r = Run()
    r.spec = spec
    r.made = m
    r.comm = m["comm"]
    mark = len(ins.EV)
    r.exc = None
    r.bt = None
    try:
        r.bt = bt.Backtest(m["strategy"], m["data"], **m["kw"])
        if on_built:
            on_built(r.bt)
        r.bt.run()
    except Exception as e:  # decided by the caller
        r.exc = e
    r.root = r.bt.strategy if r.bt is not None else None
    r.events = [e for e in ins.EV[mark:] if (e.get("root") is r.root)]
    r.all_events = ins.EV[mark:]
    r.dates = list(r.bt.dates) if r.bt is not None else []
    return r


# ------------------------------------------------------------------ generation
SCHEDS = ["daily", "weekly", "monthly", "monthly_eop", "quarterly", "yearly", "once", "ondate", "afterdate", "afterdays", "everyn", "or", "not"]
PERIODIC = {"daily", "weekly", "monthly", "monthly_eop", "quarterly", "yearly"}


def _sched(rng, kind, nd):
    if kind == "daily":
        return {"a": "RunDaily", "kw": {"run_on_first_date": rng.random() < 0.8, "run_on_last_date": rng.random() < 0.5}}
    if kind == "weekly":
        return {"a": "RunWeekly", "kw": {"run_on_first_date": rng.random() < 0.7, "run_on_last_date": rng.random() < 0.2}}
    if kind == "monthly":
        return {"a": "RunMonthly", "kw": {"run_on_first_date": rng.random() < 0.7, "run_on_last_date": rng.random() < 0.3}}
    if kind == "monthly_eop":
        return {"a": "RunMonthly", "kw": {"run_on_end_of_period": True, "run_on_first_date": rng.random() < 0.5}}
    if kind == "quarterly":
        return {"a": "RunQuarterly", "kw": {"run_on_first_date": rng.random() < 0.8}}
    if kind == "yearly":
        return {"a": "RunYearly", "kw": {"run_on_first_date": True}}
    if kind == "once":
        return {"a": "RunOnce"}
    if kind == "ondate":
        return {"a": "RunOnDate", "args": [{"$date": i} for i in sorted(rng.sample(range(nd), min(rng.randint(1, 5), nd)))]}
    if kind == "afterdate":
        return {"a": "RunAfterDate", "args": [{"$date": rng.randint(0, nd // 2)}]}
    if kind == "afterdays":
        return {"a": "RunAfterDays", "args": [rng.randint(0, 10)]}
    if kind == "everyn":
        n = rng.randint(1, 7)
        return {"a": "RunEveryNPeriods", "args": [n], "kw": {"offset": rng.randint(0, n - 1)}}
    if kind == "or":
        return {"a": "Or", "args": [{"$algos": [_sched(rng, rng.choice(["monthly", "ondate", "everyn"]), nd), _sched(rng, rng.choice(["weekly", "ondate"]), nd)]}]}
    if kind == "not":
        return {"a": "Not", "args": [{"$algo": _sched(rng, rng.choice(["weekly", "ondate", "afterdate"]), nd)}]}
    raise KeyError(kind)


def _nan_gaps(f, nd, p):
    """blank out runs of cells (a prefix, as for a name that gets its first target late, or an inner gap); drawn from a private stream so that
    the case's main random streams do not shift"""
    import zlib
    r = random.Random(zlib.crc32(repr(f["values"][0]).encode()) ^ nd)
    if r.random() >= p:
        return f
    nrows = len(f["values"])
    if nrows < 4:
        return f
    for j in range(len(f["cols"])):
        if r.random() < 0.45:
            a = 0 if r.random() < 0.6 else r.randint(1, nrows - 2)
            b = r.randint(a + 1, nrows - 1)
            for i in range(a, b):
                f["values"][i][j] = float("nan")
    f["nan_gaps"] = True
    return f


def _rand_frame(rs, nd, cols, kind, rng, nan_gaps=0.0):
    if nan_gaps and kind in ("stat", "weights"):
        f = _rand_frame(rs, nd, cols, kind, rng)
        if kind == "weights" and len(f["rows"]) < nd and (len(f["rows"]) + nd) % 2 == 0:
            # every other sparse schedule is spelled out on the full calendar (frames on the price index get bt's synthetic first row)
            step = f["rows"][1] - f["rows"][0] if len(f["rows"]) > 1 else nd
            f["values"] = [list(f["values"][i // step]) for i in range(nd)]
            f["rows"] = list(range(nd))
        return _nan_gaps(f, nd, nan_gaps)
    if kind == "bool":
        return {"cols": list(cols), "values": (rs.rand(nd, len(cols)) > 0.4).tolist(), "bool": True}
    if kind == "stat":
        return {"cols": list(cols), "values": rs.randn(nd, len(cols)).round(6).tolist()}
    if kind == "weights":
        step = rng.randint(1, 5)
        rows = list(range(0, nd, step))
        w = rs.dirichlet(np.ones(len(cols)), size=len(rows)) * rng.uniform(0.6, 1.0)
        return {"cols": list(cols), "values": w.tolist(), "rows": rows}
    raise KeyError(kind)


def gen_stack(rng, rs, spec, names, priced, prefix, opts, is_child=False):
    """One algo stack. names: tickers/children the stack may select; priced: subset priced on every date."""
    nd = spec["nd"]
    st = []
    desc = []
    deterministic = opts.get("deterministic", False)
    kinds = list(SCHEDS)
    if is_child or opts.get("calendar_first"):
        first = rng.choice(sorted(PERIODIC))
        st.append(_sched(rng, first, nd))
        desc.append(first)
        if rng.random() < 0.25:
            k2 = rng.choice(["ondate", "afterdate", "everyn", "afterdays"])
            st.append(_sched(rng, k2, nd))
            desc.append(k2)
    else:
        k = rng.choice(kinds)
        st.append(_sched(rng, k, nd))
        desc.append(k)
    if opts.get("flows", True) and not is_child:
        r = rng.random()
        amt = spec["capital"] * rng.uniform(-0.03, 0.06)
        if r < 0.25:
            st.insert(0, {"$run_always": {"a": "CapitalFlow", "args": [amt]}})
            desc.insert(0, "flow_always")
        elif r < 0.4:
            st.append({"a": "CapitalFlow", "args": [amt]})
            desc.append("flow")
        elif r < 0.5 and opts.get("quiet_flows"):
            spec.setdefault("_tail", []).append({"$run_always": {"a": "QuietFlow", "args": [amt]}})
            desc.append("quietflow")
    lb = {"$off": {"days": rng.choice([5, 10, 20, 30])}}
    lag = {"$off": {"days": rng.choice([0, 0, 1, 3])}}
    sels = ["all", "these", "hasdata", "momentum", "where", "setstat_n", "regex"]
    if not deterministic:
        sels.append("randomly")
    sel = rng.choice(sels)
    if sel == "all":
        st.append({"a": "SelectAll"})
    elif sel == "these":
        st.append({"a": "SelectThese", "args": [rng.sample(names, rng.randint(1, len(names)))]})
    elif sel == "hasdata":
        st.append({"a": "SelectHasData", "kw": {"lookback": lb, "min_count": rng.randint(1, 5)}})
    elif sel == "momentum":
        st += [{"a": "SelectAll"}, {"a": "SelectMomentum", "args": [rng.randint(1, len(names))], "kw": {"lookback": lb, "lag": lag, "sort_descending": rng.random() < 0.7}}]
    elif sel == "where":
        fn = prefix + "sig"
        spec["extras"][fn] = _rand_frame(rs, nd, names, "bool", rng)
        st.append({"a": "SelectWhere", "args": [fn]})
    elif sel == "randomly":
        st += [{"a": "SelectAll"}, {"a": "SelectRandomly", "args": [rng.randint(1, len(names))]}]
    elif sel == "setstat_n":
        fn = prefix + "stat"
        spec["extras"][fn] = _rand_frame(rs, nd, names, "stat", rng, opts.get("nan_gaps", 0.0))
        if rng.random() < 0.35:
            # scores published on some dates only (weekly / irregular): now - lag may fall into a gap
            rows = sorted(set(range(0, nd, rng.choice([2, 3, 5]))) | ({rng.randrange(nd)} if rng.random() < 0.5 else set()))
            f = spec["extras"][fn]
            f["rows"] = rows
            f["values"] = [f["values"][r] for r in rows]
        st += [{"a": "SelectAll"}, {"a": "SetStat", "args": [fn], "kw": {"lag": lag}},
               {"a": "SelectN", "args": [rng.choice([1, 2, 3, 0.5])], "kw": {"sort_descending": rng.random() < 0.5, "filter_selected": True, "all_or_none": rng.random() < 0.2}}]
    elif sel == "regex":
        st += [{"a": "SelectAll"}, {"a": "SelectRegex", "args": [rng.choice(["[02468]$", "t", "[0-3]$", "s|t1"])]}]
    desc.append(sel)
    ws = ["equal", "equal", "specified", "target", "invvol"]
    if not deterministic:
        ws.append("randomly")
    if opts.get("solvers", True) and nd >= 30:
        ws += ["erc", "meanvar"]
    if opts.get("leverage"):
        ws = ["specified", "specified", "equal", "target"]
    if opts.get("plain_weighers"):
        # allocating among strategies: a flat child index has zero volatility, and a NaN weight sent to a strategy child is silently booked as NaN cash
        ws = ["equal", "specified", "target"] + ([] if deterministic else ["randomly"])
    w = rng.choice(ws)
    sum_to_one = False
    if w in ("specified", "target") and not priced:
        w = "equal"
    if w == "equal":
        st.append({"a": "WeighEqually"})
        sum_to_one = True
    elif w == "specified":
        ks = rng.sample(priced, rng.randint(1, len(priced)))
        wv = rs.dirichlet(np.ones(len(ks))) * rng.uniform(0.5, 1.0)
        if rng.random() < 0.3:
            wv[0] = -wv[0]
        if opts.get("leverage"):
            wv = wv * rng.uniform(1.0, 4.0)
            for i in range(len(wv)):
                if rng.random() < 0.3:
                    wv[i] = -wv[i]
        st.append({"a": "WeighSpecified", "kw": dict(zip(ks, [float(x) for x in wv]))})
    elif w == "target":
        fn = prefix + "tw"
        spec["extras"][fn] = _rand_frame(rs, nd, priced, "weights", rng, opts.get("nan_gaps", 0.0))
        if opts.get("leverage"):
            f = spec["extras"][fn]
            f["values"] = (np.array(f["values"]) * rng.uniform(1.0, 3.0)).tolist()
        st.append({"a": "WeighTarget", "args": [fn]})
    elif w == "invvol":
        st.append({"a": "WeighInvVol", "kw": {"lookback": lb, "lag": lag}})
        sum_to_one = True
    elif w in ("erc", "meanvar"):
        # statistical weighers sit behind a warm-up and a data filter so that their window holds enough returns
        st.insert(1, {"a": "RunAfterDays", "args": [rng.randint(14, 20)]})
        st.append({"a": "SelectHasData", "kw": {"lookback": {"$off": {"days": 20}}, "min_count": 10}})
        if w == "erc":
            st.append({"a": "WeighERC", "kw": {"lookback": {"$off": {"days": 20}}, "lag": lag}})
        else:
            st.append({"a": "WeighMeanVar", "kw": {"lookback": {"$off": {"days": 20}}, "lag": lag}})
        sum_to_one = True
    elif w == "randomly":
        st.append({"a": "WeighRandomly"})
        sum_to_one = True
    desc.append(w)
    if sum_to_one and rng.random() < 0.25:
        st.append({"a": "LimitWeights", "args": [rng.choice([0.3, 0.5, 0.8])]})
        desc.append("limitw")
    if rng.random() < 0.2:
        st.append({"a": "LimitDeltas", "args": [rng.choice([0.05, 0.2])]})
        desc.append("limitd")
    if rng.random() < 0.15:
        st.append({"a": "ScaleWeights", "args": [rng.choice([0.5, 0.9, -0.5, 1.3])]})
        desc.append("scale")
    if rng.random() < 0.12 and nd >= 30 and not opts.get("plain_weighers"):
        st.append({"a": "TargetVol", "args": [rng.choice([0.05, 0.15])], "kw": {"lookback": {"$off": {"days": 20}}, "lag": lag}})
        st.insert(1, {"a": "RunAfterDays", "args": [16]})
        desc.append("targetvol")
    if opts.get("pte", True) and nd >= 30 and len(priced) >= 2 and rng.random() < 0.15 and not is_child:
        # tracking-error trigger in front of a dated-target rebalance
        fn = prefix + "pte_tw"
        f = _rand_frame(rs, nd, priced, "weights", rng)
        f["rows"] = None
        f["values"] = (rs.dirichlet(np.ones(len(priced)), size=nd) * rng.uniform(0.6, 1.0)).tolist()
        spec["extras"][fn] = f
        st = [x for x in st if not ("a" in x and x["a"].startswith(("Weigh", "Limit", "Scale", "TargetVol")))]
        st.insert(1, {"a": "RunAfterDays", "args": [16]})
        st.append({"a": "PTE_Rebalance", "args": [rng.choice([0.01, 0.03, 0.08]), {"$frame": fn}], "kw": {"lookback": {"$off": {"days": 20}}, "lag": lag}})
        st.append({"a": "WeighTarget", "args": [fn]})
        desc.append("pte")
    if opts.get("peek") and rng.random() < opts["peek"]:
        st.insert(1, {"a": "Peek"})
        desc.append("peek")
    if opts.get("fills") and priced and rng.random() < opts["fills"]:
        fl = []
        for _ in range(rng.randint(1, 3)):
            q0 = rng.randint(5, 200)
            fl.append([{"$date": rng.randint(1, nd - 1)}, rng.choice(priced), rng.choice([[q0, q0], [q0, -q0], [q0, -(q0 // 2), 3], [-q0, q0 // 3]])])
        spec.setdefault("_tail", []).append({"$run_always": {"a": "Fills", "args": [fl]}})
        desc.append("fills")
    tail = spec.pop("_tail", [])
    if opts.get("cash_reserve") and rng.random() < opts["cash_reserve"]:
        st.append({"a": "SetCash", "args": [rng.choice([0.1, 0.25, 0.5])]})
        desc.append("cash")
    if rng.random() < 0.8:
        st.append({"a": "Rebalance"})
        desc.append("rebalance")
        st += tail
    else:
        st.append({"$run_always": {"a": "RebalanceOverTime", "args": [rng.randint(2, 5)]}} if rng.random() < 0.5 else {"a": "RebalanceOverTime", "args": [rng.randint(2, 5)]})
        desc.append("rot")
    if opts.get("closeroll") and not is_child and len(names) >= 2 and rng.random() < opts["closeroll"]:
        # matured names are closed and kept out of later selections
        k = rng.randint(1, len(names) - 1)
        fn = prefix + "cd"
        spec["extras"][fn] = {"table": {"index": rng.sample(list(names), k), "date_rows": [rng.randint(2, nd - 2) for _ in range(k)]}}
        for i_, a_ in enumerate(st):
            if isinstance(a_, dict) and a_.get("a", "").startswith("Select"):
                st.insert(i_ + 1, {"a": "SelectActive"})     # right after the first selection: later random/ranked picks consume its order
                break
        st.insert(0, {"$run_always": {"a": "ClosePositionsAfterDates", "args": [fn]}})
        desc.append("closeroll")
    if opts.get("risk") and not is_child and len(priced) >= 2 and rng.random() < opts["risk"]:
        measures = ["M%d" % i for i in range(rng.randint(1, min(2, len(priced))))]
        hedges = rng.sample(priced, len(measures))
        spec["extras"]["unit_risk"] = {"dict": {m: {"cols": list(names), "values": rs.randn(nd, len(names)).round(4).tolist()} for m in measures}}
        hist = rng.randint(0, 2)
        for m in measures:
            st.append({"a": "UpdateRisk", "args": [m], "kw": {"history": hist}})
        st.append({"a": "SelectThese", "args": [hedges]})
        st.append({"a": "HedgeRisks", "args": [measures], "kw": {"pseudo": rng.random() < 0.3}})
        for m in measures:
            st.append({"a": "UpdateRisk", "args": [m], "kw": {"history": hist}})
        desc.append("risk")
    return st, desc


def gen(cs, **opts):
    rng = random.Random(cs)
    rs = np.random.RandomState(cs % (2 ** 32))
    nd = rng.randint(*opts.get("nd", (25, 70)))
    ntk = rng.randint(2, 6)
    tickers = ["t%d" % i for i in range(ntk)]
    vol = rng.choice([0.01, 0.02, 0.04])
    prices = 100 * np.exp(np.cumsum(rs.randn(nd, ntk) * vol, axis=0)) * rs.choice([1, 0.2, 5], size=ntk)
    if opts.get("high_prices") and random.Random(cs ^ 0x4B1D).random() < opts["high_prices"]:
        prices = prices * 30.0      # index-like quotes in the thousands (drawn from a private stream)
    late = []
    if rng.random() < opts.get("late_p", 0.5):
        for i, tk in enumerate(tickers):
            if rng.random() < 0.25 and len(late) < ntk - 1:
                k = rng.randint(1, nd // 2)
                prices[:k, i] = np.nan
                late.append(tk)
    if opts.get("jumps"):
        for _ in range(rng.randint(1, 3) if opts["jumps"] == 1 else rng.randint(2, 5)):
            d0 = rng.randint(2, nd - 1)
            i = rng.randrange(ntk)
            prices[d0:, i] *= rng.choice([0.3, 0.5, 1.6, 2.2, 0.15] if opts["jumps"] == 1 else [0.1, 0.2, 0.3, 2.5, 3.5, 0.5, 1.8])
    start = opts.get("start") or rng.choice(["2019-11-15", "2020-03-02", "2018-12-10", "2021-06-21"])
    spec = {"cs": cs, "nd": nd, "tickers": tickers, "start": start, "freq": "B", "prices": prices.tolist(), "extras": {}, "late": late}
    spec["capital"] = float(rng.choice(opts.get("capitals", [1e6, 1e5, 1e4, 3.3e6])))
    spec["integer"] = (rng.random() < 0.5) if opts.get("integer") is None else opts["integer"]
    spec["comm"] = rng.choice(opts.get("comms", ins.COMM_KINDS))
    priced = [t for t in tickers if t not in late]
    nested = rng.random() < opts.get("nested_p", 0.35)
    desc = {}
    if not nested:
        kidmode = rng.choice(["none", "lazy", "sec", "mixed"])
        if kidmode == "none":
            kids = None
            names = tickers
        else:
            sub = tickers if rng.random() < 0.6 else rng.sample(tickers, rng.randint(1, ntk))
            names = sub
            kids = []
            for t in sub:
                if kidmode == "lazy" or (kidmode == "mixed" and rng.random() < 0.5):
                    kids.append({"type": "lazy", "name": t})
                else:
                    kids.append({"type": "sec", "name": t, "mult": rng.choice([1, 1, 10, 0.5])})
        st, d = gen_stack(rng, rs, spec, list(names), [t for t in names if t in priced], "", opts)
        spec["root"] = {"name": "root", "algos": st, "children": kids}
        desc = {"root": d, "kids": kidmode}
    else:
        subs = []
        for i in range(rng.randint(1, 3)):
            tks = rng.sample(tickers, rng.randint(1, ntk))
            st, d = gen_stack(rng, rs, spec, tks, [t for t in tks if t in priced], "c%d_" % i, dict(opts, flows=False), is_child=True)
            kids_i = [{"type": "lazy", "name": t} if rng.random() < 0.7 else {"type": "sec", "name": t, "mult": rng.choice([1, 1, 10])} for t in tks]
            if rng.random() < opts.get("deep_p", 0.25):
                # a strategy of strategies: grandchildren with their own stacks, the mid level allocates among them (and its own tickers)
                gkids = []
                for j in range(rng.randint(1, 2)):
                    gt = rng.sample(tickers, rng.randint(1, ntk))
                    gst, gd = gen_stack(rng, rs, spec, gt, [t for t in gt if t in priced], "c%d_g%d_" % (i, j), dict(opts, flows=False, pte=False), is_child=True)
                    gkids.append({"type": "strat", "name": "g%d%d" % (i, j), "algos": gst, "children": [{"type": "lazy", "name": t} for t in gt]})
                    desc["g%d%d" % (i, j)] = gd
                gnames = [g["name"] for g in gkids]
                own = [t for t in tks if t in priced][: rng.randint(0, 1)]
                st, d = gen_stack(rng, rs, spec, gnames + own, gnames + own, "c%d_m_" % i, dict(opts, flows=False, pte=False, solvers=False, plain_weighers=True), is_child=True)
                kids_i = gkids + [{"type": "lazy", "name": t} for t in own]
                d = ["mid"] + d
            subs.append({"type": "strat", "name": "sub%d" % i, "algos": st, "children": kids_i})
            desc["sub%d" % i] = d
        names = [s["name"] for s in subs]
        extra_tk = rng.sample(priced, min(len(priced), rng.randint(0, 2)))
        allnames = names + extra_tk
        wv = rs.dirichlet(np.ones(len(allnames))) * rng.uniform(0.6, 1.0)
        if opts.get("zero_weight_child") and rng.random() < 0.3:
            wv[0] = 0.0
        sched = _sched(rng, rng.choice(["monthly", "weekly", "once", "daily", "everyn"]), nd)
        rootw = rng.choice(["specified", "specified", "equal"])
        st = [sched, {"a": "SelectThese", "args": [allnames]}]
        st.append({"a": "WeighSpecified", "kw": dict(zip(allnames, [float(x) for x in wv]))} if rootw == "specified" else {"a": "WeighEqually"})
        st.append({"a": "Rebalance"})
        if opts.get("flows", True) and rng.random() < 0.25:
            st.insert(0, {"$run_always": {"a": "CapitalFlow", "args": [spec["capital"] * rng.uniform(-0.02, 0.05)]}})
        spec["root"] = {"name": "root", "algos": st, "children": subs + [{"type": "lazy", "name": t} for t in extra_tk]}
        desc["root"] = ["nested", sched["a"], rootw, len(subs), len(extra_tk)]
    if nested and opts.get("node_comms") and rng.random() < opts["node_comms"]:
        # no backtest-level commission function: every strategy definition carries its own schedule
        spec["comm"] = "none"
        spec["root"]["comm"] = rng.choice(ins.COMM_KINDS)
        for k in spec["root"]["children"]:
            if k["type"] == "strat":
                k["comm"] = rng.choice(ins.COMM_KINDS)
        desc["node_comms"] = [spec["root"]["comm"]] + [k.get("comm") for k in spec["root"]["children"] if k["type"] == "strat"]
    if rng.random() < opts.get("bidoffer_p", 0.3):
        bo = rs.uniform(0, 0.004, size=prices.shape) * np.nan_to_num(prices, nan=1.0)
        spec["extras"]["bidoffer"] = {"cols": list(tickers), "values": np.where(np.isnan(prices), np.nan, bo).tolist()}
    desc.update(integer=spec["integer"], comm=spec["comm"], bidoffer="bidoffer" in spec["extras"], nested=nested, late=bool(late))
    spec["desc"] = desc
    return spec


def algo_names(spec):
    out = []

    def walk(a):
        if "$run_always" in a:
            walk(a["$run_always"])
            return
        out.append(a["a"])
        for x in a.get("args", []):
            if isinstance(x, dict) and "$algo" in x:
                walk(x["$algo"])
            if isinstance(x, dict) and "$algos" in x:
                for y in x["$algos"]:
                    walk(y)

    def node(n):
        for a in n["algos"]:
            walk(a)
        for c in n.get("children") or []:
            if c["type"] == "strat":
                node(c)

    node(spec["root"])
    return out


def signature(spec):
    deep = any(isinstance(v, list) and v and v[0] == "mid" for v in spec["desc"].values())
    return [sorted(set(algo_names(spec))), spec["desc"].get("nested"), spec["integer"], spec["comm"], spec["desc"].get("bidoffer"), spec["desc"].get("kids"), deep]


def sample_of(spec):
    return {"root": spec["root"], "nd": spec["nd"], "tickers": spec["tickers"], "integer": spec["integer"], "comm": spec["comm"], "capital": spec["capital"],
            "extras": sorted(spec["extras"].keys()), "late": spec["late"], "start": spec["start"]}
