"""W5: fixed-income workloads - FixedIncomeStrategy over mixes of security types, coupon / cost frames, notional schedules.

gen(cs) -> spec;  run_backtest(spec) -> w2-style Run;  carry helpers for the C02/C07 oracles."""
import random

import numpy as np
import pandas as pd

import bt
from bt import algos
from bt.core import CouponPayingHedgeSecurity, CouponPayingSecurity, FixedIncomeSecurity, FixedIncomeStrategy, HedgeSecurity, Security

from . import common, instrument as ins, w2

TYPES = {"sec": Security, "fi": FixedIncomeSecurity, "cp": CouponPayingSecurity, "hedge": HedgeSecurity, "cphedge": CouponPayingHedgeSecurity}


def gen(cs, kinds_pool=("sec", "fi", "cp", "cp", "fi", "hedge", "cphedge"), nd=(8, 24)):
    rng = random.Random(cs)
    rs = np.random.RandomState(cs % (2 ** 32))
    n = rng.randint(2, 5)
    names = ["b%d" % i for i in range(n)]
    kinds = [rng.choice(kinds_pool) for _ in names]
    if all(k in ("hedge", "cphedge") for k in kinds):
        kinds[0] = "cp"
    ndates = rng.randint(*nd)
    prices = 100 * np.exp(np.cumsum(rs.randn(ndates, n) * 0.005, axis=0))
    for j, k in enumerate(kinds):
        if (k in ("hedge", "cphedge") and rng.random() < 0.5) or (k in ("cp", "fi") and rng.random() < 0.2):
            # swap-like mark-to-market: starts at par (exactly 0), wanders through negative values, may touch 0 again
            z = rng.randint(1, 3)
            path = np.concatenate([np.zeros(z), np.cumsum(rs.randn(ndates - z) * 0.5).round(3)])
            if ndates - z > 3 and rng.random() < 0.5:
                path[rng.randint(z + 1, ndates - 1)] = 0.0
            prices[:, j] = path
    coupons = rs.choice([0, 0, 0.01, 0.02, 0.5], size=(ndates, n)) * rs.rand(ndates, n)
    cl = rs.rand(ndates, n) * 0.01
    cs_ = rs.rand(ndates, n) * 0.02
    nv_rows = list(range(0, ndates, rng.choice([1, 1, 2, 3])))
    nv = rs.choice([1e5, 2e5, 5e4], size=len(nv_rows)).tolist()
    if len(nv) > 3 and rng.random() < 0.3:
        for _ in range(rng.randint(1, 2)):
            nv[rng.randint(1, len(nv) - 1)] = 0.0      # the book is wound down to nothing on that date
    hedged = [nm for nm, k in zip(names, kinds) if k in ("hedge", "cphedge")]
    target_names = [nm for nm, k in zip(names, kinds) if k not in ("hedge", "cphedge")]
    ws = dict(zip(target_names, [float(x) for x in rs.dirichlet(np.ones(len(target_names)))]))
    if rng.random() < 0.3:
        ws[target_names[0]] = -ws[target_names[0]]
    sched = rng.choice(["daily", "weekly", "once", "everyn"])
    # dated targets whose sign flips for the first name on some dates (long -> short -> long in single trades)
    flip_rows = sorted(rng.sample(range(1, ndates), min(ndates - 1, rng.randint(1, 3)))) if rng.random() < 0.4 else []
    spec = {"cs": cs, "names": names, "kinds": kinds, "mults": [rng.choice([1, 1, 2]) for _ in names], "nd": ndates, "start": "2020-01-01",
            "prices": prices.tolist(), "coupons": coupons.tolist(), "cost_long": cl.tolist() if rng.random() < 0.7 else None,
            "cost_short": cs_.tolist() if rng.random() < 0.7 else None, "nv_rows": nv_rows, "nv": nv, "weights": ws, "sched": sched,
            "flip_rows": flip_rows, "integer": rng.random() < 0.3, "comm": rng.choice(["none", "none", "prop"]), "bidoffer": (rs.uniform(0, 0.2, size=(ndates, n)).tolist() if rng.random() < 0.3 else None),
            "hedges": hedged, "hedge_trades": [[rng.randint(1, ndates - 1), h, rng.choice([-1, 1]) * rng.randint(10, 500)] for h in hedged for _ in range(rng.randint(0, 2))]}
    # names that leave the target list for a stretch of dates (their cell in the dated target frame is blank): Rebalance has to close them,
    # whatever they are marked at on that date (a swap at par is worth 0 but still carries its notional)
    spec["drops"] = []
    if rng.random() < 0.4:
        for _ in range(rng.randint(1, 2)):
            a = rng.randint(1, ndates - 1)
            spec["drops"].append([rng.choice(target_names), a, min(ndates, a + rng.randint(1, 6))])
    # children declared lazily: they join the tree at their first trade (after setup)
    spec["lazy"] = [rng.random() < 0.5 for _ in names] if rng.random() < 0.35 else [False] * n
    return spec


def dated_targets(spec):
    return bool(spec.get("flip_rows") or spec.get("drops"))


def frames(spec):
    idx = pd.date_range(spec["start"], periods=spec["nd"], freq="B")
    names = spec["names"]
    data = pd.DataFrame(np.array(spec["prices"]), index=idx, columns=names)
    ex = {"coupons": pd.DataFrame(np.array(spec["coupons"]), index=idx, columns=names)}
    if spec["cost_long"] is not None:
        ex["cost_long"] = pd.DataFrame(np.array(spec["cost_long"]), index=idx, columns=names)
    if spec["cost_short"] is not None:
        ex["cost_short"] = pd.DataFrame(np.array(spec["cost_short"]), index=idx, columns=names)
    if spec["bidoffer"] is not None:
        ex["bidoffer"] = pd.DataFrame(np.array(spec["bidoffer"]), index=idx, columns=names)
    ex["nv"] = pd.Series(spec["nv"], index=idx[spec["nv_rows"]])
    if dated_targets(spec):
        tn = list(spec["weights"].keys())
        ex["tw"] = pd.DataFrame([[weight_at(spec, n_, r) for n_ in tn] for r in range(spec["nd"])], index=idx, columns=tn)
    return idx, data, ex


def weight_at(spec, name, row):
    """target weight of `name` on data row `row` (sign of the first target flips at each of spec['flip_rows']); NaN while the name is dropped"""
    for nm, a, b in spec.get("drops") or []:
        if nm == name and a <= row < b:
            return float("nan")
    w = spec["weights"][name]
    if spec.get("flip_rows") and name == list(spec["weights"].keys())[0]:
        if sum(1 for r in spec["flip_rows"] if r <= row) % 2 == 1:
            w = -w
    return w


def children(spec):
    lazy = spec.get("lazy") or [False] * len(spec["names"])
    return [TYPES[k](nm, multiplier=m, lazy_add=bool(lz)) for nm, k, m, lz in zip(spec["names"], spec["kinds"], spec["mults"], lazy)]


class HedgeTrader(bt.Algo):
    """transacts scripted notionals in hedge instruments (they are excluded from the weights workflow)"""

    def __init__(self, trades, dates):
        super(HedgeTrader, self).__init__()
        self.trades = [(dates[i], h, q) for i, h, q in trades]

    def __call__(self, target):
        for d, h, q in self.trades:
            if d == target.now:
                target.transact(q, child=h)
        return True


def make(spec, extra_algos_front=(), extra_algos_back=(), rebalance=None):
    idx, data, ex = frames(spec)
    sched = {"daily": algos.RunDaily(), "weekly": algos.RunWeekly(), "once": algos.RunOnce(), "everyn": algos.RunEveryNPeriods(3)}[spec["sched"]]
    weigh = algos.WeighTarget("tw") if dated_targets(spec) else algos.WeighSpecified(**spec["weights"])
    st = list(extra_algos_front) + [algos.run_always(HedgeTrader(spec["hedge_trades"], list(idx))), sched, algos.SelectThese(list(spec["weights"].keys())),
                                    weigh, algos.SetNotional("nv"), rebalance or algos.Rebalance()] + list(extra_algos_back)
    s = FixedIncomeStrategy("fi", st, children=children(spec))
    comm = ins.Comm(spec["comm"])
    kw = dict(integer_positions=spec["integer"], commissions=(comm if spec["comm"] != "none" else None), additional_data=dict(ex))
    return s, data, ex, kw


def make_market_value(spec):
    """the same mix of bond-like / hedge / ordinary securities under an ordinary (market-value) strategy"""
    idx, data, ex = frames(spec)
    sched = {"daily": algos.RunDaily(), "weekly": algos.RunWeekly(), "once": algos.RunOnce(), "everyn": algos.RunEveryNPeriods(3)}[spec["sched"]]
    ws = {k: abs(v) * 0.9 for k, v in spec["weights"].items()}
    st = [algos.run_always(HedgeTrader(spec["hedge_trades"], list(idx))), sched, algos.SelectThese(list(ws.keys())), algos.WeighSpecified(**ws), algos.Rebalance()]
    s = bt.Strategy("mv", st, children=children(spec))
    comm = ins.Comm(spec["comm"])
    kw = dict(integer_positions=spec["integer"], commissions=(comm if spec["comm"] != "none" else None), additional_data={k: v for k, v in ex.items() if k != "nv"})
    return s, data, ex, kw


def run_backtest(spec, extra_algos_front=(), extra_algos_back=(), market_value=False, rebalance=None):
    ins.install()
    s, data, ex, kw = make_market_value(spec) if market_value else make(spec, extra_algos_front, extra_algos_back, rebalance)
    r = w2.Run()
    r.spec = spec
    mark = len(ins.EV)
    r.exc = None
    r.bt = None
    try:
        r.bt = bt.Backtest(s, data, **kw)
        r.bt.run()
    except Exception as e:
        r.exc = e
    r.root = r.bt.strategy if r.bt is not None else None
    r.all_events = ins.EV[mark:]
    r.events = [e for e in r.all_events if e.get("root") is r.root]
    r.dates = list(r.bt.dates) if r.bt is not None else []
    r.frames = (data, ex)
    return r


def accrual(spec, ex, sec, i_full, pos):
    """coupon less holding cost accrued by security `sec` on row i_full of the backtest's (synthetic-row-extended) index, for end-of-day position pos"""
    if not isinstance(sec, CouponPayingSecurity) or pos == 0 or i_full == 0:
        return 0.0
    i = i_full - 1
    j = spec["names"].index(sec.name)
    cpn = pos * spec["coupons"][i][j]
    cost = 0.0
    if pos > 0 and spec["cost_long"] is not None:
        cost = pos * spec["cost_long"][i][j]
    if pos < 0 and spec["cost_short"] is not None:
        cost = -pos * spec["cost_short"][i][j]
    return cpn - cost


def signature(spec):
    return [sorted(set(spec["kinds"])), spec["sched"], spec["integer"], spec["comm"], spec["bidoffer"] is not None, spec["cost_long"] is not None,
            spec["cost_short"] is not None, len(spec["nv_rows"]) < spec["nd"], bool(spec.get("flip_rows")), bool(spec.get("drops")), any(spec.get("lazy") or [])]


def sample_of(spec):
    return {k: spec[k] for k in ("names", "kinds", "mults", "nd", "weights", "flip_rows", "drops", "lazy", "sched", "integer", "comm", "nv_rows", "nv", "hedge_trades")}
