"""Date-level oracles over a finished (or aborted) W2/W5 run: C02 decomposition, C03 recurrence, C07 ledger.
Every oracle works per tree: the real tree and each paper-trading shadow (a stand-alone tree of its own)."""
import numpy as np
import pandas as pd

from bt.core import SecurityBase, StrategyBase

from . import common, instrument as ins, mon1
from .common import bump, mx

REL = common.REL


class TreeLog(object):
    """Events of one tree grouped by date index; positions reconstructed from the trade log (independent of bt's own series)."""

    def __init__(self, who, root, events, dates, kind):
        self.who = who
        self.root = root
        self.kind = kind
        self.dates = dates
        self.index = {d: i for i, d in enumerate(dates)}
        self.trades = {}     # di -> [trade]
        self.adjusts = {}    # (di, id(node)) -> [adjust]
        self.n_trades = 0
        for e in events:
            if e.get("root") is not root:
                continue
            if e["k"] == "trade":
                di = self.index.get(e["date"], 0)
                self.trades.setdefault(di, []).append(e)
                self.n_trades += 1
            elif e["k"] == "adjust":
                di = 0 if (isinstance(e["date"], int) and e["date"] == 0) else self.index.get(e["date"], 0)
                self.adjusts.setdefault((di, id(e["node"])), []).append(e)

    def flows(self, di, node=None, external_only=False):
        node = node or self.root
        return sum(a["amount"] for a in self.adjusts.get((di, id(node)), []) if a["flow"] and not (external_only and a.get("ctx") is not None))

    def costs(self, di):
        c = 0.0
        for e in self.trades.get(di, []):
            _, f, sp = ins.trade_costs(e, self.kind)
            c += f + sp
        return c


def tree_logs(run):
    out = []
    for who, r in mon1.trees(run.root):
        out.append(TreeLog(who, r, run.all_events, run.dates, run.spec["comm"]))
    return out


def last_row(root):
    """index of the last date the tree was updated to"""
    now = root.now
    if isinstance(now, int) and now == 0:
        return -1
    return root.data.index.get_loc(now)


def c02_dates(run, cnt, res, coupons=None):
    """dV == MTM(start-of-day positions, input prices) + flows (+coupons less costs of the earlier date) - trade costs; per tree."""
    data = run.bt.data
    for tl in tree_logs(run):
        root = tl.root
        secs = ins.securities(root)
        V = root.data["value"].to_numpy(dtype=float)
        n = last_row(root) + 1
        pos = {id(s): 0.0 for s in secs}
        px = {id(s): (data[s.name].to_numpy(dtype=float) if s.name in data.columns else np.full(len(data), np.nan)) for s in secs}
        carry_prev = 0.0
        for i in range(n):
            mtm = 0.0
            g = 0.0
            if i > 0:
                for s in secs:
                    p0 = pos[id(s)]
                    if p0 != 0:
                        mtm += p0 * (px[id(s)][i] - px[id(s)][i - 1]) * s.multiplier
                        g += abs(p0 * px[id(s)][i - 1] * s.multiplier)
            for e in tl.trades.get(i, []):
                pos[id(e["sec"])] = pos.get(id(e["sec"]), 0.0) + (e["pos1"] - e["pos0"])
            fl = tl.flows(i, external_only=True)
            costs = tl.costs(i)
            prev = V[i - 1] if i > 0 else 0.0
            exp = prev + mtm + fl + carry_prev - costs
            gg = g + abs(prev) + abs(V[i]) + abs(fl) + sum(abs(s.data["value"].iloc[i]) for s in secs) + sum(abs(x.data["cash"].iloc[i]) for x in ins.strategies(root))
            bump(cnt, "c02_date_evals")
            mx(res, "c02_date_rel", abs(V[i] - exp) / (1 + gg))
            if not abs(V[i] - exp) <= REL * (1 + gg):
                return ("c02_date", {"tree": tl.who, "date_index": i, "date": str(tl.dates[i]), "value": V[i], "expected": exp, "prev_value": prev, "mtm": mtm,
                                     "flows": fl, "carry_from_prev_date": carry_prev, "costs": costs, "trades": len(tl.trades.get(i, []))})
            carry_prev = 0.0
            if coupons is not None:
                carry_prev = coupons(root, i, pos)
    return None


def c03_recurrence(run, cnt, res):
    for tl in tree_logs(run):
        root = tl.root
        if root.fixed_income:
            continue
        P = root.data["price"].to_numpy(dtype=float)
        V = root.data["value"].to_numpy(dtype=float)
        F = root.data["flows"].to_numpy(dtype=float)
        n = last_row(root) + 1
        for i in range(n):
            # external flows only: initial capital, CapitalFlow, user adjustments - never what bt books while trading or transferring
            fl = tl.flows(i, external_only=True)
            bump(cnt, "c03_flow_row_evals")
            if not abs(F[i] - fl) <= REL * (1 + abs(fl) + abs(V[i])):
                return ("c03_flows_row", {"tree": tl.who, "date_index": i, "recorded_flows": F[i], "flows_from_event_log": fl})
            pv, pp = (V[i - 1], P[i - 1]) if i > 0 else (0.0, 100.0)
            base = pv + fl
            g = abs(pv) + abs(fl) + abs(V[i])
            if i == 0:
                bump(cnt, "c03_start_evals")
                # the first recorded point: funded by a pure flow, no P&L yet -> exactly 100
                if tl.n_trades == 0 or not tl.trades.get(0):
                    if not abs(P[0] - 100.0) <= 1e-9:
                        return ("c03_start", {"tree": tl.who, "first_price": P[0]})
            if abs(base) > 1e-9 * (1 + g):
                exp = pp * V[i] / base
                rel = 1e-9 * (1 + g / abs(base))
                bump(cnt, "c03_recurrence_evals")
                mx(res, "c03_err_over_tol", abs(P[i] - exp) / (rel * (1 + abs(exp))))
                if not abs(P[i] - exp) <= rel * (1 + abs(exp)):
                    return ("c03_recurrence", {"tree": tl.who, "date_index": i, "date": str(tl.dates[i]), "price": P[i], "expected": exp, "prev_price": pp,
                                               "value": V[i], "prev_value": pv, "flows": fl})
            elif abs(V[i]) <= 1e-9 * (1 + g):
                if not abs(P[i] - pp) <= 1e-9 * (1 + abs(pp)):
                    return ("c03_recurrence", {"tree": tl.who, "date_index": i, "price": P[i], "expected": pp, "why": "zero base and zero value: no move"})
    return None


def c07_ledger(run, cnt, res, swept=None):
    """Per strategy node and date, from recorded rows + event log."""
    for tl in tree_logs(run):
        root = tl.root
        kind = tl.kind
        n = last_row(root) + 1
        # exactly-once booking over the whole log of this tree
        evs = [e for e in run.all_events if e.get("root") is root and e["k"] in ("trade", "adjust")]
        adj_by_node = {}
        for a in evs:
            if a["k"] == "adjust" and not a["flow"]:
                adj_by_node.setdefault(id(a["node"]), []).append(a)
        used = set()
        for e in evs:
            if e["k"] != "trade":
                continue
            outlay, f, sp = ins.trade_costs(e, kind)
            bump(cnt, "c07_trade_booking_evals")
            hit = None
            for a in adj_by_node.get(id(e["parent"]), []):
                if a["seq"] in used or a["seq"] > e["seq"]:
                    continue
                if abs(a["amount"] + outlay + f) <= 1e-9 * (1 + abs(outlay) + abs(f)) and abs(a["fee"] - f) <= 1e-9 * (1 + abs(f)):
                    hit = a
            if hit is None:
                return ("c07_trade_booking", {"tree": tl.who, "sec": e["sec"].full_name, "q": e["q"], "p": e["p"], "cp": e["cp"], "m": e["m"], "bo": e["bo"],
                                              "expected_amount": -(outlay + f), "expected_fee": f, "date": str(e["date"])})
            used.add(hit["seq"])
        for a in evs:
            if a["k"] == "adjust" and a["fee"] != 0.0 and a["seq"] not in used:
                return ("c07_unmatched_fee", {"tree": tl.who, "node": a["node"].full_name, "amount": a["amount"], "fee": a["fee"]})
        trades_by = {}
        for di, lst in tl.trades.items():
            for e in lst:
                trades_by.setdefault((di, id(e["parent"])), []).append(e)
        for s in ins.strategies(root):
            own = [c for c in s.children.values() if isinstance(c, SecurityBase)]
            subs = [c for c in s.children.values() if isinstance(c, StrategyBase)]
            cash = s.data["cash"].to_numpy(dtype=float)
            flows = s.data["flows"].to_numpy(dtype=float)
            fees = s.data["fees"].to_numpy(dtype=float)
            for i in range(n):
                prev = cash[i - 1] if i > 0 else 0.0
                outs = [c.data["outlay"].iloc[i] for c in own]
                outl = sum(outs)
                tosubs = sum(c.data["flows"].iloc[i] for c in subs)
                sw = swept(s, i) if swept is not None else 0.0
                exp = flows[i] - outl - fees[i] - tosubs + sw
                sc = 1 + abs(cash[i]) + abs(prev) + abs(flows[i]) + abs(tosubs) + sum(abs(o) for o in outs) + abs(sw)
                bump(cnt, "c07_ledger_evals")
                mx(res, "c07_ledger_rel", abs(cash[i] - prev - exp) / sc)
                if not abs(cash[i] - prev - exp) <= REL * sc:
                    return ("c07_ledger", {"tree": tl.who, "node": s.full_name, "date_index": i, "date": str(tl.dates[i]), "dcash": cash[i] - prev, "expected": exp,
                                           "received": flows[i], "outlays": outl, "fees": fees[i], "to_subs": tosubs, "swept": sw})
                # received by a sub-strategy == what the event log says its parent passed down
                if s is not root:
                    ev_fl = tl.flows(i, s)
                    if not abs(flows[i] - ev_fl) <= REL * (1 + abs(ev_fl)):
                        return ("c07_flows_row", {"tree": tl.who, "node": s.full_name, "date_index": i, "recorded": flows[i], "from_event_log": ev_fl})
                tls = trades_by.get((i, id(s)), [])
                efee = sum(ins.trade_costs(e, kind)[1] for e in tls)
                bump(cnt, "c07_fee_row_evals")
                if not abs(fees[i] - efee) <= REL * (1 + abs(efee)):
                    return ("c07_fee_row", {"tree": tl.who, "node": s.full_name, "date_index": i, "recorded_fees": fees[i], "fees_from_trade_log": efee, "trades": len(tls)})
                eo = {}
                ab = {}
                for e in tls:
                    o = ins.trade_costs(e, kind)[0]
                    eo[id(e["sec"])] = eo.get(id(e["sec"]), 0.0) + o
                    ab[id(e["sec"])] = ab.get(id(e["sec"]), 0.0) + abs(o)
                for c in own:
                    r = c.data["outlay"].iloc[i]
                    x = eo.get(id(c), 0.0)
                    bump(cnt, "c07_outlay_row_evals")
                    if not abs(r - x) <= REL * (1 + ab.get(id(c), 0.0)):
                        return ("c07_outlay_row", {"tree": tl.who, "node": c.full_name, "date_index": i, "recorded_outlay": r, "outlay_from_trade_log": x})
    return None


class RowSnapshots(object):
    """C01 in backtests: at every completed outermost update of a tree take the public end-of-update state of every node;
    the last snapshot per (tree, date) must equal the recorded rows."""

    def __init__(self):
        self.snaps = {}   # id(root) -> {date: {full_name: (value, cash, position, notional)}}
        self.roots = {}
        self.ident_viol = None
        self.ident_evals = 0
        self.busy = False
        ins.ON_UPDATE_DONE.append(self.on_update)

    def on_update(self, root, date):
        if self.busy:
            return
        self.busy = True
        try:
            if root.stale:
                # bankruptcy liquidation pending (the declaring update leaves the tree stale and the backtest loop stops updating on
                # that date): which state is "end of date" is not fixed by the statement - forget what was seen earlier on this date
                self.snaps.setdefault(id(root), {}).pop(date, None)
                return
            snap = {}
            for m in root.members:
                if isinstance(m, StrategyBase):
                    snap[m.full_name] = (m._value, m._capital, None, m._notl_value)
                else:
                    snap[m.full_name] = (m._value, None, m._position, m._notl_value)
            self.snaps.setdefault(id(root), {})[date] = snap
            self.roots[id(root)] = root
        finally:
            self.busy = False

    def check_rows(self, run, cnt):
        for who, r in mon1.trees(run.root):
            snaps = self.snaps.get(id(r), {})
            g = REL * (1 + ins.gross(r))
            idx = r.data.index
            for m in r.members:
                vals = m.data["value"].to_numpy(dtype=float)
                notl = m.data["notional_value"].to_numpy(dtype=float)
                cash = m.data["cash"].to_numpy(dtype=float) if isinstance(m, StrategyBase) else None
                pos = m.data["position"].to_numpy(dtype=float) if isinstance(m, SecurityBase) else None
                for date, snap in snaps.items():
                    i = idx.get_loc(date)
                    if m.full_name in snap:
                        ev, ec, ep, en = snap[m.full_name]
                    else:
                        ev, ec, ep, en = 0.0, 0.0, 0.0, 0.0
                    bump(cnt, "c01_row_evals")
                    bad = None
                    if not abs(vals[i] - ev) <= g + REL * abs(ev):
                        bad = ("value", vals[i], ev)
                    elif not abs(notl[i] - en) <= g + REL * abs(en):
                        bad = ("notional_value", notl[i], en)
                    elif cash is not None and not abs(cash[i] - ec) <= g + REL * abs(ec):
                        bad = ("cash", cash[i], ec)
                    elif pos is not None and not (pos[i] == ep or abs(pos[i] - ep) <= 1e-12 * abs(ep)):
                        bad = ("position", pos[i], ep)
                    if bad:
                        return ("c01_row", {"tree": who, "node": m.full_name, "date": str(date), "column": bad[0], "recorded": bad[1], "end_of_date_state": bad[2],
                                            "existed": m.full_name in snap})
        return None


class Probe(object):
    """Wraps a generated algo: after (or before) delegating, with seeded probability, runs a callback on the live tree.
    Carries run_always over; shared context survives bt's deep copies."""

    def __init__(self, algo, ctx, desc=None):
        self.algo = algo
        self.ctx = ctx
        self.desc = desc
        if hasattr(algo, "run_always"):
            self.run_always = algo.run_always

    @property
    def name(self):
        return getattr(self.algo, "name", type(self.algo).__name__)

    def __call__(self, target):
        self.ctx.before(self, target)
        r = self.algo(target)
        self.ctx.after(self, target, r)
        return r


class SharedCtx(object):
    def __deepcopy__(self, memo):
        return self

    def before(self, probe, target):
        pass

    def after(self, probe, target, result):
        pass

    def run_kwargs(self):
        return {"wrap": lambda algo, desc: Probe(algo, self, desc)}


class IdentityCtx(SharedCtx):
    """C01 inside backtests: identity through the public properties at completed updates and between algos; rows vs snapshots."""

    def __init__(self, cs, p_update=0.25, p_algo=0.15):
        import random as _r

        self.rng = _r.Random(cs ^ 0xC01)
        self.rows = RowSnapshots()
        self.viol = None
        self.evals = 0
        self.points = 0
        self.p_update = p_update
        self.p_algo = p_algo
        self.busy = False
        self.data = None
        ins.ON_UPDATE_DONE.append(self.on_update)

    def run_kwargs(self):
        kw = SharedCtx.run_kwargs(self)
        kw["on_built"] = self.on_built
        return kw

    def on_built(self, b):
        self.data = b.data

    def px(self, sec):
        d = self.data
        try:
            now = ins.top(sec).now
            if d is not None and sec.name in d.columns and not (isinstance(now, int) and now == 0):
                return float(d.loc[now, sec.name])
        except Exception:
            pass
        return None

    def _check(self, root, where):
        if self.viol is not None or self.busy:
            return
        self.busy = True
        try:
            v, n = mon1.check_identity(root, where, self.px)
            self.evals += n
            self.points += 1
            if v:
                self.viol = v[0]
        finally:
            self.busy = False

    def on_update(self, root, date):
        if self.rng.random() < self.p_update:
            self._check(root, "after completed update")

    def after(self, probe, target, result):
        if self.rng.random() < self.p_algo:
            self._check(ins.top(target), "after algo %s" % probe.name)


def c01_w2(run, cnt, res, ctx):
    bump(cnt, "identity_evals", ctx.evals)
    bump(cnt, "identity_points", ctx.points)
    if ctx.viol:
        mech, w = ctx.viol
        if mech == "c01_weight" and w.get("is_strategy") and w.get("root_bankrupt"):
            mech = "k5_weight"
        return (mech, w)
    # the recorded history describes one state per date (read before anything refreshes the tree)
    for who, r in mon1.trees(run.root):
        v, n = mon1.row_identity(r, who)
        bump(cnt, "row_identity_evals", n)
        if v:
            return v
    # end-of-run identity on every tree
    for who, r in mon1.trees(run.root):
        v, n = mon1.check_identity(r, who)
        bump(cnt, "identity_evals", n)
        if v:
            mech, w = v[0]
            if mech == "c01_weight" and w.get("is_strategy") and w.get("root_bankrupt"):
                mech = "k5_weight"      # bankruptcy declared by the last completed update of the run: same state as between algos
            return (mech, w)
    return ctx.rows.check_rows(run, cnt)


def c01_rows_only(run, cnt, res):
    if run.root is not None and run.root.bankrupt:
        bump(cnt, "obs_bankrupt_runs")
    for who, r in mon1.trees(run.root):
        v, n = mon1.row_identity(r, who)
        bump(cnt, "row_identity_evals", n)
        if v:
            return v
    return None


class InjectCtx(SharedCtx):
    """C08 schedule injection: redundant update calls and property reads before/after generated algos."""

    READS = ["value", "weight", "price", "prices", "values", "positions", "notional_value", "outlays"]
    SREADS = ["cash", "fees", "flows", "capital", "universe"]

    def __init__(self, cs, p=0.35):
        import random as _r

        self.rng = _r.Random(cs ^ 0xC08)
        self.p = p
        self.updates = 0
        self.reads = 0

    def _inject(self, target):
        rng = self.rng
        if rng.random() > self.p:
            return
        t = ins.top(target)
        for _ in range(rng.randint(1, 3)):
            if rng.random() < 0.5:
                if not (isinstance(t.now, int) and t.now == 0):
                    t.update(t.now)
                    self.updates += 1
            else:
                m = rng.choice(t.members)
                props = self.READS + (self.SREADS if isinstance(m, StrategyBase) else ["position"])
                getattr(m, rng.choice(props))
                self.reads += 1

    def before(self, probe, target):
        self._inject(target)

    def after(self, probe, target, result):
        if self.rng.random() < 0.3:
            self._inject(target)

    def on_update(self, root, date):
        """right after a completed outermost update (also on dates on which no algo runs, e.g. the date a root is declared bankrupt)"""
        if getattr(self, "_busy", False) or self.rng.random() > 0.25:
            return
        self._busy = True
        try:
            self.p, p = 1.0, self.p
            self._inject(root)
            self.p = p
            self.end_of_update_injections = getattr(self, "end_of_update_injections", 0) + 1
        finally:
            self._busy = False


def all_frames(root):
    out = {}
    for who, r in mon1.trees(root):
        for k, v in ins.frames(r).items():
            out[who + "|" + k] = v
    return out
