"""Harness-side instrumentation of bt: class-level wrappers that record an event log.

Works identically on the interpreted and on the cythonized build (the classes are ordinary
Python classes in both; internal calls go through attribute lookup and hit the wrappers).
Nothing is added to the repository."""
import math

import numpy as np
import pandas as pd

import bt
from bt.core import SecurityBase, StrategyBase

EV = []          # event log (dicts holding live node references)
_SEQ = [0]
_DEPTH = {}      # id(root) -> re-entrancy depth of root.update
_installed = [False]
ON_UPDATE_DONE = []   # callbacks(root, date) run when an outermost root.update completes
_CTX = []             # stack of bt-internal callers currently active ("transact", "allocate"): an adjust logged with an empty stack is external


def top(node):
    """Top of the tree a node hangs in, by parent links (inside a paper shadow `.root` of the children still names a copy of the real root)."""
    n = node
    for _ in range(64):
        p = n.parent
        if p is n or p is None:
            return n
        n = p
    return n


def _seq():
    _SEQ[0] += 1
    return _SEQ[0]


def install():
    if _installed[0]:
        return
    _installed[0] = True
    o_transact = SecurityBase.transact
    o_adjust = StrategyBase.adjust
    o_update = StrategyBase.update
    o_salloc = SecurityBase.allocate

    def transact(self, q, update=True, update_self=True, price=None):
        pos0 = self._position
        par = self.parent
        _CTX.append("transact")
        try:
            r = o_transact(self, q, update, update_self, price)
        finally:
            _CTX.pop()
            pos1 = self._position
            if pos1 != pos0:
                EV.append({"k": "trade", "seq": _seq(), "sec": self, "parent": par, "root": top(par), "date": par.now, "q": float(q),
                           "p": self._price, "cp": price, "m": self.multiplier, "bo": self._bidoffer if self._bidoffer_set else 0.0,
                           "pos0": pos0, "pos1": pos1})
        return r

    def adjust(self, amount, update=True, flow=True, fee=0.0):
        EV.append({"k": "adjust", "seq": _seq(), "node": self, "root": top(self), "date": self.now, "amount": float(amount), "flow": bool(flow),
                   "fee": float(fee), "update": bool(update), "ctx": _CTX[-1] if _CTX else None})
        return o_adjust(self, amount, update, flow, fee)

    def update(self, date, data=None, inow=None):
        if self.parent is not self:
            return o_update(self, date, data, inow)
        k = id(self)
        _DEPTH[k] = _DEPTH.get(k, 0) + 1
        ok = False
        try:
            r = o_update(self, date, data, inow)
            ok = True
            return r
        finally:
            _DEPTH[k] -= 1
            if _DEPTH[k] == 0:
                del _DEPTH[k]
                if ok:
                    EV.append({"k": "update_done", "seq": _seq(), "root": self, "date": date})
                    for cb in ON_UPDATE_DONE:
                        cb(self, date)

    def salloc(self, amount, update=True):
        e = {"k": "alloc", "seq": _seq(), "sec": self, "parent": self.parent, "root": top(self.parent), "amount": float(amount), "pos0": self._position,
             "exc": None}
        EV.append(e)
        try:
            return o_salloc(self, amount, update)
        except Exception as ex:
            e["exc"] = "%s: %s" % (type(ex).__name__, str(ex)[:120])
            raise
        finally:
            e["pos1"] = self._position
            e["p"] = self._price
            e["seq_end"] = _seq()

    o_stalloc = StrategyBase.allocate

    def stalloc(self, amount, child=None, update=True):
        _CTX.append("allocate")
        try:
            return o_stalloc(self, amount, child, update)
        finally:
            _CTX.pop()

    StrategyBase.allocate = stalloc
    SecurityBase.transact = transact
    StrategyBase.adjust = adjust
    StrategyBase.update = update
    SecurityBase.allocate = salloc


def reset():
    del EV[:]
    del _CTX[:]
    _DEPTH.clear()
    del ON_UPDATE_DONE[:]


# ---------------------------------------------------------------- commission functions (harness-owned, pure)
def fee(kind, q, p):
    if kind == "none":
        return 0.0
    if kind == "prop":
        return abs(q) * p * 0.001
    if kind == "fixprop":
        return (1.0 + abs(q) * p * 0.0005) if q != 0 else 0.0
    if kind == "max1":
        return max(1.0, abs(q) * 0.01)
    if kind == "prop5":
        return abs(q) * p * 0.005
    raise KeyError(kind)


class Comm(object):
    """Commission function handed to bt; counts its calls (speculative sizing probes included)."""

    def __init__(self, kind):
        self.kind = kind
        self.calls = 0

    def __call__(self, q, p):
        self.calls += 1
        return fee(self.kind, q, p)

    def __deepcopy__(self, memo):
        return self


COMM_KINDS = ["none", "prop", "fixprop", "max1"]


def trade_costs(e, kind):
    """(outlay incl. spread, fee, spread cost) of a logged trade, recomputed independently of bt."""
    q, p, m = e["q"], e["p"], e["m"]
    if e["cp"] is None:
        sp = abs(q) * 0.5 * e["bo"] * m
        f = fee(kind, q, p * m)
    else:
        sp = q * (e["cp"] - p) * m
        f = fee(kind, q, e["cp"] * m)
    return q * p * m + sp, f, sp


# ---------------------------------------------------------------- tree helpers / snapshots
def strategies(root):
    return [m for m in root.members if isinstance(m, StrategyBase)]


def securities(root):
    return [m for m in root.members if isinstance(m, SecurityBase)]


def gross(root):
    g = 0.0
    for m in root.members:
        if isinstance(m, StrategyBase):
            g += abs(m._capital)
        else:
            v = m._value
            if v == v:
                g += abs(v)
            g += abs(m._position) * 1e-9
    return g


def max_qty(root):
    return max([abs(m._position) for m in root.members if isinstance(m, SecurityBase)] or [0.0])


_RAW_FIELDS = ("_capital", "_price", "_value", "_notl_value", "_weight", "_position", "_net_flows", "_last_value", "_last_price", "_last_fee",
               "_last_notl_value", "now", "_outlay", "_bidoffer_paid", "_bidoffer", "_needupdate", "_last_pos", "bankrupt", "_coupon", "_holding_cost")


def _getf(m, f):
    try:
        return getattr(m, f)
    except AttributeError:
        return None


def raw(root, with_paper=True):
    """Side-effect-free snapshot of private scalars and the bytes of each node's recorded frame."""
    out = {}
    for m in root.members:
        d = {}
        for f in _RAW_FIELDS:
            v = _getf(m, f)
            if v is not None:
                d[f] = v
        if hasattr(m, "data"):
            d["data"] = m.data.to_numpy(dtype=float, na_value=np.nan).tobytes()
            d["cols"] = tuple(m.data.columns)
        if isinstance(m, SecurityBase) and getattr(m, "_prices_set", False) is False and hasattr(m, "_prices"):
            pass
        out[m.full_name] = d
        if with_paper and isinstance(m, StrategyBase) and getattr(m, "_paper_trade", False) and hasattr(m, "_paper"):
            for k, v in raw(m._paper, with_paper).items():
                out["paper[%s]>%s" % (m.full_name, k)] = v
    out["<stale>"] = {"stale": root.stale}
    return out


def same(x, y):
    if isinstance(x, float) and isinstance(y, float):
        return x == y or (math.isnan(x) and math.isnan(y))
    try:
        return bool(x == y)
    except Exception:
        return False


def diff_raw(a, b, ignore=("<stale>",)):
    out = []
    for k in a:
        if k in ignore:
            continue
        if k not in b:
            out.append((k, "<missing>"))
            continue
        for f in a[k]:
            if not same(a[k][f], b[k].get(f)):
                out.append((k, f))
    for k in b:
        if k not in a and k not in ignore:
            out.append((k, "<new>"))
    return out


def frame_of(m):
    """Recorded frame of a node incl. its price column for securities (float array + column list)."""
    df = m.data
    cols = list(df.columns)
    arr = df.to_numpy(dtype=float, na_value=np.nan)
    if isinstance(m, SecurityBase) and "price" not in cols:
        arr = np.column_stack([arr, np.asarray(m._prices.to_numpy(dtype=float, na_value=np.nan))])
        cols = cols + ["price"]
    return cols, arr


def frames(root):
    return {m.full_name: frame_of(m) for m in root.members}


def first_frame_diff(fa, fb, upto=None, rel=0.0, abs_tol=0.0):
    """Compare two frames() dicts (rows [0, upto)); returns None or a description of the first mismatch."""
    for name in fa:
        if name not in fb:
            return {"node": name, "what": "missing in second run"}
        ca, a = fa[name]
        cb, b = fb[name]
        if ca != cb:
            return {"node": name, "what": "columns differ", "a": ca, "b": cb}
        if upto is not None:
            a = a[:upto]
            b = b[:upto]
        if a.shape != b.shape:
            return {"node": name, "what": "shape", "a": a.shape, "b": b.shape}
        if rel == 0.0:
            eq = (a == b) | (np.isnan(a) & np.isnan(b))
        else:
            eq = (np.abs(a - b) <= abs_tol + rel * (1 + np.abs(a) + np.abs(b))) | (np.isnan(a) & np.isnan(b))
        if not eq.all():
            i, j = np.argwhere(~eq)[0]
            return {"node": name, "what": "value", "row": int(i), "col": ca[j], "a": float(a[i, j]), "b": float(b[i, j])}
    for name in fb:
        if name not in fa:
            return {"node": name, "what": "missing in first run"}
    return None
