"""W1: random trees driven by random operation sequences (explicit, JSON-able programs).

gen(cs)            -> spec (tree, data, per-date op lists, settings)
build(spec)        -> (root, data, kw)
Driver.run()       -> executes the program on the real bt code, calling monitor hooks
"""
import random

import numpy as np
import pandas as pd

import bt
from bt.core import Security, SecurityBase, Strategy, StrategyBase

from . import common, instrument as ins


# ------------------------------------------------------------------ generation
def _gen_tree(rng, tickers, depth, counter, eager_p):
    """children spec list for one strategy"""
    kids = []
    nt = rng.randint(0 if depth > 0 else 1, len(tickers))
    tks = rng.sample(tickers, nt)
    for t in tks:
        if rng.random() < eager_p:
            kids.append({"type": "sec", "name": t, "mult": rng.choice([1, 1, 1, 10, 0.5])})
        else:
            kids.append({"type": "lazy", "name": t})
    if depth < 2:
        for _ in range(rng.choice([0, 0, 1, 1, 2]) if depth == 0 else rng.choice([0, 0, 1])):
            counter[0] += 1
            kids.append({"type": "strat", "name": "s%d" % counter[0], "children": _gen_tree(rng, tickers, depth + 1, counter, eager_p)})
    rng.shuffle(kids)
    return kids


def _strat_paths(kids, prefix):
    out = [(prefix, kids)]
    for k in kids:
        if k["type"] == "strat":
            out += _strat_paths(k["children"], prefix + ">" + k["name"])
    return out


def gen(cs, ndates=(3, 8), nops=(1, 6), fi=False):
    rng = random.Random(cs)
    rs = np.random.RandomState(cs % (2 ** 32))
    nd = rng.randint(*ndates)
    ntk = rng.randint(2, 5)
    tickers = ["t%d" % i for i in range(ntk)]
    scale = [float(rng.choice([1, 1, 0.1, 5, 0.013])) for _ in tickers]
    vol = rng.choice([0.01, 0.03, 0.08])
    prices = 100 * np.exp(np.cumsum(rs.randn(nd, ntk) * vol, axis=0)) * np.array(scale)
    late = {}
    if rng.random() < 0.2:
        t = rng.randrange(ntk)
        k = rng.randint(1, max(1, nd // 2))
        prices[:k, t] = np.nan
        late[tickers[t]] = k
    zero = {}
    if rng.random() < 0.12 and nd >= 4:
        t = rng.randrange(ntk)
        if tickers[t] not in late:
            k0 = rng.randint(1, nd - 2)
            for k in range(k0, min(nd, k0 + rng.randint(1, 3))):
                prices[k, t] = 0.0     # e.g. a swap marked at par: value 0 while the position stays open
            zero[tickers[t]] = k0
    flat = rng.random() < 0.1
    if flat:  # some dates with unchanged prices (flow-neutrality observations)
        for i in range(1, nd):
            if rng.random() < 0.5:
                prices[i] = prices[i - 1]
    counter = [0]
    kids = _gen_tree(rng, tickers, 0, counter, eager_p=rng.choice([0.0, 0.5, 1.0]))
    no_children_root = rng.random() < 0.12
    if no_children_root:
        kids = []
    integer = rng.random() < 0.5
    comm = rng.choice(ins.COMM_KINDS)
    spread = rng.random() < 0.4
    bo = None
    if spread:
        bo = rs.uniform(0, 0.01, size=prices.shape) * np.nan_to_num(prices, nan=1.0)
        bo[np.isnan(prices)] = np.nan
    capital = float(rng.choice([1e6, 1e5, 2.5e4, 3.3e6]))
    spaths = _strat_paths(kids, "root")
    # ops
    ops = []
    for di in range(nd):
        day = []
        for _ in range(rng.randint(*nops)):
            path, skids = rng.choice(spaths)
            names = [k["name"] for k in skids] if skids else list(tickers)
            secnames = [k["name"] for k in skids if k["type"] != "strat"] if skids else list(tickers)
            kind = rng.choice(["adjust", "adjust", "allocate_child", "allocate_child", "allocate_self", "rebalance", "rebalance", "rebalance_base",
                               "close", "flatten", "transact", "sec_transact", "update", "read", "batch", "batch"])
            upd = rng.random() < 0.85
            a = capital * rng.uniform(-0.2, 0.3)
            if kind == "adjust":
                day.append({"op": "adjust", "node": path, "amount": capital * rng.uniform(-0.1, 0.2), "flow": rng.random() < 0.5, "update": upd})
            elif kind == "allocate_child" and names:
                day.append({"op": "allocate", "node": path, "child": rng.choice(names), "amount": a, "update": upd})
            elif kind == "allocate_self":
                day.append({"op": "allocate", "node": path, "child": None, "amount": capital * rng.uniform(-0.1, 0.2), "update": upd})
            elif kind == "rebalance" and names:
                day.append({"op": "rebalance", "node": path, "child": rng.choice(names), "weight": rng.choice([0.0, rng.uniform(-0.5, 0.8), rng.uniform(0, 0.5)]),
                            "base": None, "update": upd})
            elif kind == "rebalance_base" and names:
                day.append({"op": "rebalance", "node": path, "child": rng.choice(names), "weight": rng.uniform(-0.5, 0.8),
                            "base": capital * rng.uniform(0.01, 1.0), "update": upd})
            elif kind == "close" and names:
                day.append({"op": "close", "node": path, "child": rng.choice(names), "update": upd})
            elif kind == "flatten":
                day.append({"op": "flatten", "node": path})
            elif kind == "transact" and secnames:
                q = rng.randint(-500, 500) if integer else rng.uniform(-500, 500)
                day.append({"op": "transact", "node": path, "child": rng.choice(secnames), "q": q, "update": upd})
            elif kind == "sec_transact" and secnames:
                q = rng.randint(-300, 300) if integer else rng.uniform(-300, 300)
                day.append({"op": "sec_transact", "node": path, "child": rng.choice(secnames), "q": q,
                            "pmult": rng.uniform(0.97, 1.03) if (spread and rng.random() < 0.6) else None, "update": upd})
            elif kind == "batch" and secnames:
                # several mutators back to back with no read in between (round trips, buys then sells, transfers)
                sub = []
                t0 = rng.choice(secnames)
                q0 = rng.randint(1, 300) if integer else rng.uniform(1, 300)
                style = rng.choice(["roundtrip", "roundtrip", "mixed"])
                if style == "roundtrip":
                    sgn = rng.choice([1, -1])
                    pm = (lambda: rng.uniform(0.97, 1.03) if (spread and rng.random() < 0.6) else None)
                    use_sec = rng.random() < 0.6
                    parts = [sgn * q0, -sgn * q0] if rng.random() < 0.6 else [sgn * q0, -sgn * (q0 // 2 if integer else q0 / 2), -sgn * (q0 - (q0 // 2 if integer else q0 / 2))]
                    for qq in parts:
                        if qq == 0:
                            continue
                        if use_sec:
                            sub.append({"op": "sec_transact", "node": path, "child": t0, "q": qq, "pmult": pm(), "update": rng.random() < 0.7})
                        else:
                            sub.append({"op": "transact", "node": path, "child": t0, "q": qq, "update": rng.random() < 0.7})
                else:
                    for _j in range(rng.randint(2, 4)):
                        k2 = rng.choice(["sec_transact", "transact", "adjust", "allocate_child"])
                        if k2 == "adjust":
                            sub.append({"op": "adjust", "node": path, "amount": capital * rng.uniform(-0.05, 0.1), "flow": rng.random() < 0.5, "update": rng.random() < 0.7})
                        elif k2 == "allocate_child":
                            sub.append({"op": "allocate", "node": path, "child": rng.choice(secnames), "amount": capital * rng.uniform(-0.1, 0.15), "update": True})
                        else:
                            qq = rng.randint(-300, 300) if integer else rng.uniform(-300, 300)
                            if k2 == "sec_transact":
                                sub.append({"op": "sec_transact", "node": path, "child": rng.choice(secnames), "q": qq,
                                            "pmult": rng.uniform(0.97, 1.03) if (spread and rng.random() < 0.5) else None, "update": rng.random() < 0.7})
                            else:
                                sub.append({"op": "transact", "node": path, "child": rng.choice(secnames), "q": qq, "update": rng.random() < 0.7})
                day.append({"op": "batch", "node": path, "ops": sub})
            elif kind == "update":
                day.append({"op": "update"})
            elif kind == "read":
                day.append({"op": "read", "node": path, "prop": rng.choice(["value", "weight", "price", "prices", "values", "positions", "cash", "fees", "flows", "outlays"])})
        ops.append(day)
    return {"tickers": tickers, "prices": prices.tolist(), "start": "2020-01-01", "freq": "B", "tree": kids, "integer": integer, "comm": comm,
            "bidoffer": None if bo is None else bo.tolist(), "capital": capital, "ops": ops, "late": late, "zero": zero, "cs": cs, "attach": rng.random() < 0.2}


# ------------------------------------------------------------------ construction
def _build_children(kids):
    out = []
    for k in kids:
        if k["type"] == "sec":
            out.append(Security(k["name"], multiplier=k["mult"]))
        elif k["type"] == "lazy":
            out.append(k["name"])
        else:
            out.append(Strategy(k["name"], [], children=_build_children(k["children"]) or None))
    return out


def _attach(parent, kids):
    """top-down assembly: sub-strategies created with parent=, securities added to the live node"""
    for k in kids:
        if k["type"] == "strat":
            s = Strategy(k["name"], [], parent=parent)
            _attach(s, k["children"])
        elif k["type"] == "sec":
            parent._add_children([Security(k["name"], multiplier=k["mult"])], dc=False)
        else:
            parent._add_children([k["name"]], dc=False)


def frames_of(spec):
    idx = pd.date_range(spec["start"], periods=len(spec["prices"]), freq=spec["freq"])
    data = pd.DataFrame(np.array(spec["prices"], dtype=float), index=idx, columns=spec["tickers"])
    kw = {}
    if spec.get("bidoffer") is not None:
        kw["bidoffer"] = pd.DataFrame(np.array(spec["bidoffer"], dtype=float), index=idx, columns=spec["tickers"])
    return data, kw


def build(spec):
    data, kw = frames_of(spec)
    if spec.get("attach"):
        root = Strategy("root", [])
        _attach(root, spec["tree"])
    else:
        root = Strategy("root", [], children=_build_children(spec["tree"]) or None)
    root.use_integer_positions(spec["integer"])
    comm = ins.Comm(spec["comm"])
    if spec["comm"] != "none":
        root.set_commissions(comm)
    root.setup(data, **kw)
    return root, data, kw, comm


def resolve(root, path):
    parts = path.split(">")
    n = root
    for p in parts[1:]:
        n = n.children.get(p)
        if n is None:
            return None
    return n


def signature(spec):
    def shape(kids):
        return sorted(repr(k["type"] if k["type"] != "strat" else ("strat", tuple(shape(k["children"])))) for k in kids)

    kinds = sorted({o["op"] for day in spec["ops"] for o in day} | {"batch:" + x["op"] for day in spec["ops"] for o in day if o["op"] == "batch" for x in o["ops"]})
    return [repr(shape(spec["tree"])), spec["integer"], spec["comm"], spec["bidoffer"] is not None, kinds, len(spec["ops"]), bool(spec.get("attach"))]


class Stop(Exception):
    def __init__(self, verdict, why, exc=None):
        self.verdict = verdict
        self.why = why
        self.exc = exc


class Driver(object):
    """Runs a W1 program. Monitors are objects with optional hooks:
    start(drv), before_op(drv, op), after_op(drv, op, info), end_of_date(drv, di, dt), end(drv)."""

    def __init__(self, spec, monitors, guard_ood=True):
        self.spec = spec
        self.monitors = monitors
        self.viols = []       # (mech, witness)
        self.cnt = {}
        self.res = {}
        self.guard_ood = guard_ood
        self.ops_done = 0
        self.trades = 0

    def violation(self, mech, **w):
        w["op_index"] = self.ops_done
        self.viols.append((mech, w))

    def _hook(self, name, *a):
        for m in self.monitors:
            f = getattr(m, name, None)
            if f is not None:
                f(self, *a)

    def run(self):
        ins.install()
        ins.reset()
        spec = self.spec
        self.root, self.data, self.kw, self.comm = build(spec)
        root = self.root
        self.dates = list(self.data.index)
        self._hook("start")
        try:
            for di, dt in enumerate(self.dates):
                self.di, self.dt = di, dt
                root.update(dt)
                self._hook("date_start", di, dt)
                day = list(spec["ops"][di])
                if di == 0:
                    day.insert(0, {"op": "adjust", "node": "root", "amount": spec["capital"], "flow": True, "update": True})
                for op in day:
                    self.exec_op(op)
                    if self.viols:
                        return
                root.update(dt)
                self._hook("end_of_date", di, dt)
                if self.viols:
                    return
            self._hook("end")
        except ZeroDivisionError:
            raise Stop(common.OOD, "zero base")

    # -- guards keep the program inside the domain of the properties (deterministic given the live tree)
    def _guard(self, op, node):
        root = self.root
        k = op["op"]
        if k == "batch":
            return None
        if k == "adjust" and node is not root and not op["flow"] and abs(node._last_value + node._net_flows) < 1e-9:
            return "unfunded sub-strategy"
        if k in ("update", "read", "adjust"):
            return None
        if k == "flatten":
            return "unfunded sub-strategy" if (node is not root and abs(node._last_value + node._net_flows) < 1e-9) else None
        if node is None:
            return "node absent"
        if isinstance(node, StrategyBase) and node is not root and abs(node._last_value + node._net_flows) < 1e-9:
            # trading inside an unfunded sub-strategy leads to a return on a zero base (ill-formed by design)
            if k in ("transact", "sec_transact", "rebalance", "close") or (k == "allocate" and op.get("child") is not None):
                return "unfunded sub-strategy"
        child = op.get("child")
        if child is not None:
            c = node.children.get(child)
            if c is None or isinstance(c, SecurityBase):
                tick_price = self.data[child].iloc[self.di] if child in self.data.columns else None
                if tick_price is None or not (tick_price == tick_price) or tick_price < 0:
                    return "no price"
                if tick_price == 0 and k not in ("transact", "sec_transact", "close"):
                    return "no price"      # capital cannot be allocated at a zero price; quantity-based trades and closes are legal
            if k == "close" and c is None:
                return "child absent"
        if k == "allocate" and child is None:
            if max([abs(c._weight) for c in node._childrenv] or [0.0]) > 50:
                return "extreme leverage inside target"
            # securities without a price cannot receive their share
            for c in node.members:
                if isinstance(c, SecurityBase) and c is not node and abs(c._weight) > 0 and not (c._price == c._price):
                    return "no price"
        if k == "allocate" and child is not None:
            c = node.children.get(child)
            if isinstance(c, StrategyBase) and max([abs(x._weight) for x in c._childrenv] or [0.0]) > 50:
                return "extreme leverage inside target"
        if k == "rebalance":
            c = node.children.get(child)
            if isinstance(c, StrategyBase) and max([abs(x._weight) for x in c._childrenv] or [0.0]) > 50:
                return "extreme leverage inside target"
        return None

    def _apply(self, op, node, info):
        """one mutator call on the real tree - no reads of refreshing properties"""
        root = self.root
        k = op["op"]
        if k == "adjust":
            node.adjust(op["amount"], update=op["update"], flow=op["flow"])
            info["ext_flow" if op["flow"] else "ext_nonflow"] += op["amount"]
            info["direct"].append((op["node"], bool(op["flow"]), op["amount"]))
        elif k == "allocate":
            node.allocate(op["amount"], child=op["child"], update=op["update"])
        elif k == "rebalance":
            if op["base"] is None:
                node.rebalance(op["weight"], op["child"], update=op["update"])
            else:
                node.rebalance(op["weight"], op["child"], base=op["base"], update=op["update"])
        elif k == "close":
            node.close(op["child"], update=op["update"])
        elif k == "flatten":
            node.flatten()
        elif k == "transact":
            node.transact(op["q"], child=op["child"], update=op["update"])
        elif k == "sec_transact":
            c = node.children.get(op["child"])
            if c is None:
                node._create_child_if_needed(op["child"])
                c = node.children[op["child"]]
            if op.get("pmult") is not None:
                px = float(self.data[op["child"]].iloc[self.di]) * op["pmult"]   # from the input frame: no read of the live tree
                c.transact(op["q"], update=op["update"], price=px)
            else:
                c.transact(op["q"], update=op["update"])
        elif k == "update":
            root.update(self.dt)
        elif k == "read":
            getattr(node, op["prop"])

    def exec_op(self, op):
        root = self.root
        node = resolve(root, op["node"]) if "node" in op else root
        why = self._guard(op, node)
        if why:
            common.bump(self.cnt, "ops_skipped")
            return
        self._hook("before_op", op)
        mark = len(ins.EV)
        info = {"mark": mark, "ext_flow": 0.0, "ext_nonflow": 0.0, "exc": None, "direct": []}
        k = op["op"]
        try:
            if k == "batch":
                need_update = False
                for sub in op["ops"]:
                    n2 = resolve(root, sub["node"])
                    if self._guard(sub, n2):
                        common.bump(self.cnt, "ops_skipped")
                        continue
                    self._apply(sub, n2, info)
                    common.bump(self.cnt, "batch_subops")
                    if sub.get("update") is False:
                        need_update = True
                op = dict(op, update=(False if need_update else True))
            else:
                self._apply(op, node, info)
            if op.get("update") is not False:
                self._hook("pending", op)
            if op.get("update") is False:
                # update=False is the caller's promise to refresh explicitly (as Rebalance does)
                root.update(self.dt)
            post_v = root.value  # read BEFORE slicing the log: the read may trigger liquidation trades
        except ZeroDivisionError:
            raise Stop(common.OOD, "zero base")
        except Exception as e:
            if common.is_guard_exc(e) and self.guard_ood:
                raise Stop(common.OOD, "sizing guard")
            info["exc"] = e
            self._hook("on_exception", op, info)
            if info.get("handled"):
                return
            raise Stop(common.INC, "bt raised %s: %s during %s" % (type(e).__name__, str(e)[:100], k), exc=e)
        g = ins.gross(root)
        if g > common.GROSS_MAX or ins.max_qty(root) > common.QTY_MAX:
            raise Stop(common.OOD, "magnitude")
        info["post_v"] = post_v
        info["events"] = ins.EV[mark:]
        nt = sum(1 for e in info["events"] if e["k"] == "trade" and e["root"] is root)
        self.trades += nt
        self.ops_done += 1
        common.bump(self.cnt, "ops")
        common.bump(self.cnt, "op_" + k)
        common.bump(self.cnt, "trades", nt)
        self._hook("after_op", op, info)
