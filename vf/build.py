"""Scratch builds of /repo/bt: interpreted copy and cythonized copy (content-addressed cache).

Nothing here ever imports /repo/bt (its git-ignored core.*.so shadows core.py)."""
import fcntl
import hashlib
import os
import shutil
import subprocess
import sys
import tempfile
import time

REPO = os.environ.get("VERIF_REPO", "/repo")
VERIF = os.path.dirname(os.path.dirname(os.path.abspath(__file__)))
PY = os.environ.get("VERIF_PYTHON", "/venv/bin/python")
SRC = ["__init__.py", "core.py", "algos.py", "backtest.py"]
CACHE = os.path.join(VERIF, ".cache")


def scratch_root():
    d = os.environ.get("VERIF_TMP")
    if d:
        os.makedirs(d, exist_ok=True)
        return d
    return "/dev/shm" if os.path.isdir("/dev/shm") and os.access("/dev/shm", os.W_OK) else tempfile.gettempdir()


def source_hash():
    h = hashlib.sha256()
    for f in SRC:
        with open(os.path.join(REPO, "bt", f), "rb") as fh:
            h.update(f.encode() + b"\0" + fh.read() + b"\0")
    with open(os.path.join(REPO, "setup.py"), "rb") as fh:
        h.update(fh.read())
    h.update(sys.version.encode())
    return h.hexdigest()[:24]


def copy_sources(dst):
    os.makedirs(os.path.join(dst, "bt"), exist_ok=True)
    for f in SRC:
        shutil.copy2(os.path.join(REPO, "bt", f), os.path.join(dst, "bt", f))


def make_interpreted():
    """Fresh scratch dir holding bt/*.py only. Caller removes it."""
    d = tempfile.mkdtemp(prefix="btvf_py_", dir=scratch_root())
    copy_sources(d)
    return d


def _prune_cache(keep=4):
    try:
        ents = [os.path.join(CACHE, e) for e in os.listdir(CACHE) if os.path.isdir(os.path.join(CACHE, e))]
    except OSError:
        return
    ents.sort(key=lambda p: os.path.getmtime(p), reverse=True)
    for p in ents[keep:]:
        shutil.rmtree(p, ignore_errors=True)


def get_compiled(log=None):
    """Return (dir, None) of a cythonized copy of the current /repo/bt sources, or (None, reason)."""
    key = source_hash()
    os.makedirs(CACHE, exist_ok=True)
    dst = os.path.join(CACHE, key)
    lockf = open(os.path.join(CACHE, ".lock"), "w")
    fcntl.flock(lockf, fcntl.LOCK_EX)
    try:
        if os.path.exists(os.path.join(dst, "OK")):
            os.utime(dst, None)
            return dst, None
        shutil.rmtree(dst, ignore_errors=True)
        work = tempfile.mkdtemp(prefix="btvf_cy_", dir=scratch_root())
        try:
            copy_sources(work)
            shutil.copy2(os.path.join(REPO, "setup.py"), work)
            with open(os.path.join(work, "README.md"), "w") as fh:
                fh.write("scratch\n")
            t0 = time.time()
            p = subprocess.run([PY, "setup.py", "build_ext", "--inplace"], cwd=work, stdout=subprocess.PIPE, stderr=subprocess.STDOUT, text=True, timeout=600)
            so = [f for f in os.listdir(os.path.join(work, "bt")) if f.startswith("core.") and f.endswith(".so")]
            if p.returncode != 0 or not so:
                return None, "cythonize failed: " + p.stdout[-400:]
            os.makedirs(os.path.join(dst, "bt"))
            for f in SRC + so:
                shutil.copy2(os.path.join(work, "bt", f), os.path.join(dst, "bt", f))
            with open(os.path.join(dst, "OK"), "w") as fh:
                fh.write("built in %.1fs\n" % (time.time() - t0))
            _prune_cache()
            return dst, None
        finally:
            shutil.rmtree(work, ignore_errors=True)
    except subprocess.TimeoutExpired:
        return None, "cythonize timed out"
    finally:
        fcntl.flock(lockf, fcntl.LOCK_UN)
        lockf.close()


if __name__ == "__main__":
    d, why = get_compiled()
    print(d or why)
    sys.exit(0 if d else 1)
