import sys, random, hashlib
import numpy as np, pandas as pd, bt
from w2 import gen_backtest
import warnings; warnings.filterwarnings('ignore')
out=[]
for seed in range(0,400):
    make, desc, data, extras = gen_backtest(seed)
    if not any('limitd' in v for v in desc.values() if isinstance(v,list)): continue
    if any('randomly' in v for v in desc.values() if isinstance(v,list)): continue
    random.seed(seed); np.random.seed(seed)
    t=make()
    try: t.run()
    except Exception: continue
    h=hashlib.md5()
    for m in t.strategy.members: h.update(m.full_name.encode()); h.update(m.data.to_numpy(dtype=float,na_value=np.nan).tobytes())
    out.append((seed,h.hexdigest()[:8]))
print(' '.join('%d:%s'%x for x in out))
