import sys, random, collections, traceback, hashlib, copy
import numpy as np, pandas as pd, bt
from bt import algos
from w2 import gen_stack, gen_data, COMMS
import warnings; warnings.filterwarnings('ignore')
def digest(root):
    h=hashlib.md5()
    for m in root.members: h.update(m.full_name.encode()); h.update(m.data.to_numpy(dtype=float,na_value=np.nan).tobytes())
    return h.hexdigest()
def run(seed):
    rng=random.Random(seed); rs=np.random.RandomState(seed)
    nd=rng.randint(25,45); tickers=['t%d'%i for i in range(rng.randint(2,5))]
    data=gen_data(rng,rs,nd,tickers,late=False); extras={}
    st,d=gen_stack(rng,rs,data,tickers,extras)
    if 'randomly' in d: return 'skip',None
    tpl=bt.Strategy('tpl',st)
    calls=[]
    settings=[dict(integer_positions=True,commissions=COMMS['prop']), dict(integer_positions=False,commissions=None), dict(integer_positions=True,commissions=COMMS['prop'])]
    def alone(k):
        t=bt.Backtest(copy.deepcopy(tpl),data,name='n%d'%k,additional_data=dict(extras),**settings[k]); t.run(); return digest(t.strategy)
    try: ref=[alone(k) for k in range(3)]
    except Exception as e: return 'exc',None
    # shared template, various orders
    for order in ([0,1,2],[2,1,0],[1,0,2]):
        bts=[bt.Backtest(tpl,data,name='n%d'%k,additional_data=dict(extras),**settings[k]) for k in range(3)]
        for k in order: bts[k].run()
        got=[digest(b.strategy) for b in bts]
        if got!=ref: return 'VIOL-order',(d,order,[a==b for a,b in zip(got,ref)])
    # interleaved construct/run
    a=bt.Backtest(tpl,data,name='a',additional_data=dict(extras),**settings[0]); 
    b=bt.Backtest(tpl,data,name='b',additional_data=dict(extras),**settings[1]); b.run(); a.run()
    c=bt.Backtest(tpl,data,name='c',additional_data=dict(extras),**settings[2]); c.run()
    if [digest(x.strategy) for x in (a,b,c)]!=ref: return 'VIOL-interleave',d
    # has_run
    da=digest(a.strategy); a.run(); 
    if digest(a.strategy)!=da: return 'VIOL-rerun',d
    if ref[0]!=ref[2]: return 'VIOL-repeat',d
    return 'ok',None
cnt=collections.Counter(); ex={}
for i in range(int(sys.argv[1])):
    try: r,info=run(i)
    except Exception as e: r='HARNESS'; info=traceback.format_exc()[-500:]
    cnt[r]+=1
    if r not in('ok','skip','exc'): ex.setdefault(r,[]).append((i,info))
print(cnt)
for k,v in ex.items(): print(k,str(v[:3])[:600])
