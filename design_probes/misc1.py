import numpy as np, pandas as pd, bt, traceback, random
from bt import algos
print(bt.core.__file__)
dts = pd.date_range('2020-01-01', periods=6)
data = pd.DataFrame({'a':[100.,101,102,103,104,105],'b':[50.,51,49,52,53,50], 'c':[10.,11,12,11,10,9]}, index=dts)

print("== C06 cash path from non-flat")
class SetCash(bt.Algo):
    def __init__(s, c): s.c=c; super().__init__()
    def __call__(s, t): t.temp['cash']=s.c; return True
s = bt.Strategy('s',[algos.RunDaily(), algos.SelectAll(), algos.WeighEqually(), SetCash(0.3), algos.Rebalance()])
t = bt.Backtest(s, data, integer_positions=False); t.run()
w = t.weights; print(w.round(4)); print('cash frac', (t.strategy.cash/t.strategy.values).round(4).tolist())

print("== C08 cash accessor")
s = bt.Strategy('s', children=['a','b'])
s.setup(data); s.update(dts[0]); s.adjust(1000); 
print('len cash', len(s.cash), 'len values', len(s.values), 'stale', s.root.stale)
s.update(dts[0]); s.adjust(500)
print('cash now (stale read)', s.cash[dts[0]], 'capital', s.capital); s.update(dts[0]); print('after update', s.cash[dts[0]])

print("== C18 get_transactions with no trades")
s = bt.Strategy('s',[algos.RunOnDate('2030-01-01'), algos.SelectAll(), algos.WeighEqually(), algos.Rebalance()])
t = bt.Backtest(s, data); res = bt.run(t)
try: print(res.get_transactions())
except Exception as e: traceback.print_exc()
for nm in ['weights','security_weights','positions','herfindahl_index','turnover']:
    try: x = getattr(t, nm); print(nm, 'ok', getattr(x,'shape',None))
    except Exception as e: print(nm, 'RAISES', type(e).__name__, e)

print("== C13 RunIfOutOfBounds cash")
s = bt.Strategy('s',[algos.SelectAll(), algos.WeighEqually(), SetCash(0.1), algos.RunIfOutOfBounds(0.1), algos.Rebalance()])
t = bt.Backtest(s, data)
try: t.run(); print('ok')
except Exception as e: print('RAISES', type(e).__name__, e)

print("== C12 RunWeekly new year")
idx = pd.to_datetime(['2012-12-27','2012-12-28','2012-12-31','2013-01-02','2013-01-03','2013-01-04','2013-01-07','2013-01-08'])
d2 = pd.DataFrame({'a':np.arange(len(idx))+100.}, index=idx)
fired=[]
class Spy(bt.Algo):
    def __call__(s,t): fired.append(t.now); return True
s = bt.Strategy('s',[algos.RunWeekly(), Spy()])
t = bt.Backtest(s,d2); t.run(); print([str(x.date()) for x in fired])
