import numpy as np, pandas as pd, bt, random, sys, hashlib
from bt import algos
rs = np.random.RandomState(3)
dts = pd.date_range('2020-01-01', periods=60, freq='B')
cols = ['aa','bb','cc','dd','ee','ff','gg']
data = pd.DataFrame(100*np.exp(np.cumsum(rs.randn(60,7)*0.02,axis=0)), index=dts, columns=cols)
random.seed(7); np.random.seed(7)
s = bt.Strategy('s',[algos.RunWeekly(), algos.SelectAll(), algos.SelectRandomly(3), algos.WeighEqually(), algos.Rebalance()], children=cols)
t = bt.Backtest(s, data, integer_positions=True, commissions=lambda q,p: abs(q)*p*0.001); t.run()
print('universe cols', list(t.strategy.universe.columns))
print('final price', repr(float(t.strategy.prices.iloc[-1])), hashlib.md5(t.strategy.prices.values.tobytes()).hexdigest())
s = bt.Strategy('s',[algos.RunWeekly(), algos.SelectAll(), algos.WeighInvVol(), algos.Rebalance()], children=cols)
t = bt.Backtest(s, data, integer_positions=True, commissions=lambda q,p: abs(q)*p*0.001); t.run()
print('invvol final price', repr(float(t.strategy.prices.iloc[-1])), hashlib.md5(t.strategy.prices.values.tobytes()).hexdigest(), hashlib.md5(t.strategy.values.values.tobytes()).hexdigest())
