import sys, math, random, collections, traceback, copy
import numpy as np, pandas as pd
import bt
from bt import algos
from bt.core import StrategyBase, SecurityBase, Security
import w2
from w2 import gen_stack, gen_data, COMMS
import warnings; warnings.filterwarnings('ignore')
def run(seed):
    rng = random.Random(seed); rs = np.random.RandomState(seed)
    nd = rng.randint(25,60); tickers=['t%d'%i for i in range(rng.randint(2,6))]
    data = gen_data(rng, rs, nd, tickers, late=rng.random()<0.5)
    extras={}
    st, d = gen_stack(rng, rs, data, tickers, extras)
    if 'randomly' in d: return 'skip', None
    integer = rng.random()<0.5; cname=rng.choice(list(COMMS))
    def bt_of(kids):
        s = bt.Strategy('root', copy.deepcopy(st), children=kids)
        return bt.Backtest(s, data, integer_positions=integer, commissions=COMMS[cname], additional_data=dict(extras))
    t_lazy = bt_of(list(tickers))
    try: t_lazy.run()
    except Exception as e: return 'exc', None
    order = list(t_lazy.strategy.children.keys())
    rest = [t for t in tickers if t not in order]
    t_eager = bt_of([Security(t) for t in order+rest]); t_eager.run()
    t_eager2 = bt_of([Security(t) for t in tickers]); t_eager2.run()
    t_none = bt_of(None); t_none.run()
    def cmp(a,b, exact):
        for nm in ['prices','values','cash','fees']:
            x=getattr(a.strategy,nm).values; y=getattr(b.strategy,nm).values
            if exact:
                if not np.array_equal(x,y): return nm
            else:
                if not np.allclose(x,y,rtol=1e-9,atol=1e-6): return nm
        pa=a.strategy.positions; pb=b.strategy.positions
        for c in pa.columns:
            if c not in pb.columns: return 'poscol'
            if exact and not np.array_equal(pa[c].values,pb[c].values): return 'pos'
            if not exact and not np.allclose(pa[c].values,pb[c].values, atol=1e-6): return 'pos'
        return None
    r = cmp(t_lazy,t_eager,True)
    if r: return 'DIFF-ordered-exact', (d, r, integer, cname)
    r = cmp(t_lazy,t_eager2,False)
    if r: return 'DIFF-unordered-tol', (d, r, integer, cname)
    r2 = cmp(t_lazy,t_eager2,True)
    r = cmp(t_lazy,t_none,False)
    if r: return 'DIFF-none-tol', (d, r, integer, cname)
    return 'ok' + ('' if not r2 else '-but-unordered-not-exact'), None
if __name__=='__main__':
    N=int(sys.argv[1]); base=int(sys.argv[2]) if len(sys.argv)>2 else 0
    cnt=collections.Counter(); ex={}
    for i in range(N):
        try: r, info = run(base+i)
        except Exception as e: r='HARNESS'; info=traceback.format_exc()[-600:]
        cnt[r]+=1
        if r not in ('ok','skip','exc','ok-but-unordered-not-exact'): ex.setdefault(r,[]).append((base+i,info))
    for k,v in cnt.most_common():
        print(v,k)
        for e in ex.get(k,[])[:5]: print('    ', str(e)[:700])
