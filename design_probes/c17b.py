import sys, random, collections, traceback
import numpy as np, pandas as pd, bt
from bt import algos
from bt.core import *
import warnings; warnings.filterwarnings('ignore')
TYPES={'sec':Security,'fi':FixedIncomeSecurity,'cp':CouponPayingSecurity,'hedge':HedgeSecurity}
def run(seed):
    rng=random.Random(seed); rs=np.random.RandomState(seed)
    n=rng.randint(2,5); names=['b%d'%i for i in range(n)]; kinds=[rng.choice(['sec','fi','cp','cp','fi']) for _ in names]
    nd=rng.randint(8,20); dts=pd.date_range('2020-01-01',periods=nd,freq='B')
    data=pd.DataFrame(100*np.exp(np.cumsum(rs.randn(nd,n)*0.005,axis=0)),index=dts,columns=names)
    coupons=pd.DataFrame(rs.choice([0,0.01,0.02],size=(nd,n)),index=dts,columns=names)
    nv=pd.Series(rs.choice([1e5,2e5,5e4],size=nd),index=dts)
    if rng.random()<0.5: nv=nv.iloc[::2]
    ws=dict(zip(names,[float(x) for x in rs.dirichlet(np.ones(n))]))
    if rng.random()<0.3: ws[names[0]]=-ws[names[0]]
    kids=[TYPES[k](nm) for nm,k in zip(names,kinds)]
    log=[]
    class Spy(bt.Algo):
        def __call__(s,t):
            if t.parent is t and not t._paper_trade:
                log.append((t.now, t.temp.get('notional_value'), {c.name:(c.notional_value, c.weight) for c in t.children.values()}, t.notional_value))
            return True
    st=[algos.RunDaily(), algos.SelectAll(), algos.WeighSpecified(**ws), algos.SetNotional('nv'), algos.Rebalance(), Spy()]
    s=bt.FixedIncomeStrategy('fi',st,children=kids)
    integer=rng.random()<0.3
    t=bt.Backtest(s,data,integer_positions=integer,additional_data={'coupons':coupons,'nv':nv})
    try: t.run()
    except Exception as e: return ('exc',type(e).__name__,str(e)[:60]),None
    for now,base,kidsnap,N in log:
        for nm,(notl,w) in kidsnap.items():
            T=ws[nm]*base
            k=kinds[names.index(nm)]
            tol = 1e-6*(1+abs(T)) + (data.loc[now,nm] if (k=='sec' and integer) else 0.0)
            if abs(notl-T)>tol: return 'VIOL-target',(str(now),nm,k,notl,T,integer)
    # renormalized result
    r=bt.backtest.RenormalizedFixedIncomeResult(1e5, t)
    V=t.strategy.values; F=t.strategy.flows
    exp=100*(1+((V.diff()-F)/1e5).cumsum()); exp.iloc[0]=100
    got=r.prices[t.name]
    if not np.allclose(got.values,exp.values,rtol=1e-12,atol=1e-9): return 'VIOL-renorm',None
    return 'ok',len(log)
cnt=collections.Counter(); ex={}
for i in range(int(sys.argv[1])):
    try: r,info=run(i)
    except Exception as e: r='HARNESS'; info=traceback.format_exc()[-500:]
    cnt[r]+=1
    if r!='ok': ex.setdefault(r,[]).append((i,info))
for k,v in cnt.most_common():
    print(v,k)
    for e in ex.get(k,[])[:3]: print('    ',str(e)[:500])
