import sys, random, collections, traceback
import numpy as np, pandas as pd, bt
from bt import algos
from bt.core import *
import warnings; warnings.filterwarnings('ignore')
def run(seed):
    rng=random.Random(seed); rs=np.random.RandomState(seed)
    nd=rng.randint(6,15); n=rng.randint(3,6); names=['b%d'%i for i in range(n)]
    dts=pd.date_range('2020-01-01',periods=nd,freq='B')
    data=pd.DataFrame(100*np.exp(np.cumsum(rs.randn(nd,n)*0.01,axis=0)),index=dts,columns=names)
    measures=['M%d'%i for i in range(rng.randint(1,2))]
    ur={m: pd.DataFrame(rs.randn(nd,n), index=dts, columns=names).drop(columns=rng.sample(names, rng.randint(0,1))) for m in measures}
    mults={nm: rng.choice([1,1,1,2,0.5]) for nm in names}
    which=rng.choice(['risk','hedge','close','roll'])
    errs=[]
    if which in('risk','hedge'):
        nested=rng.random()<0.5
        if nested:
            sub=bt.Strategy('sub',[],children=[Security(nm,multiplier=mults[nm]) for nm in names[:2]])
            root=bt.Strategy('r',[],children=[sub]+[Security(nm,multiplier=mults[nm]) for nm in names[2:]])
        else:
            root=bt.Strategy('r',[],children=[Security(nm,multiplier=mults[nm]) for nm in names])
        root.use_integer_positions(False)
        root.setup(data, unit_risk=ur); root.update(dts[0]); root.adjust(1e6); root.update(dts[0])
        i=rng.randint(0,nd-1)
        for d in dts[:i+1]:
            root.update(d)
            for s in [m for m in root.members if isinstance(m,StrategyBase)]:
                for c in s.children.values():
                    if isinstance(c,SecurityBase) and rng.random()<0.5: c.transact(rng.uniform(-100,200))
        hist=rng.randint(0,2)
        for m in measures: algos.UpdateRisk(m, history=hist)(root)
        now=root.now
        def exp_risk(node,m):
            if isinstance(node,SecurityBase):
                if node.name in ur[m].columns and node.position!=0: return ur[m].loc[now,node.name]*node.position*node.multiplier
                return 0.0
            return sum(exp_risk(c,m) for c in node.children.values())
        for node in root.members:
            for m in measures:
                e=exp_risk(node,m)
                if abs(node.risk[m]-e)>1e-9*(1+abs(e)): errs.append(('risk',node.full_name,node.risk[m],e))
        # history depth
        depth={root:0}
        for node in root.members:
            for c in node.children.values(): depth[c]=depth[node]+1
        for node in root.members:
            has=hasattr(node,'risks')
            if has != (depth[node]<hist): errs.append(('history',node.full_name,has,depth[node],hist))
        if which=='hedge' and not errs:
            k=len(measures)
            cand=[nm for nm in names[2:] if all(nm in ur[m].columns for m in measures)] if nested else [nm for nm in names if all(nm in ur[m].columns for m in measures)]
            if len(cand)<k: return 'skip',None
            sel=rng.sample(cand,k)
            root.temp={'selected':sel}
            try:
                algos.HedgeRisks(measures)(root)
            except np.linalg.LinAlgError: return 'skip',None
            for m in measures: algos.UpdateRisk(m)(root)
            gross=sum(abs(exp_risk(s,m)) for s in root.members if isinstance(s,SecurityBase) for m in measures)
            bad=[(m,root.risk[m]) for m in measures if abs(root.risk[m])>1e-8*(1+gross)]
            if bad: errs.append(('hedge', bad, {s:mults[s] for s in sel}))
            if errs: return ('viol','hedge','mult!=1' if any(mults[s]!=1 for s in sel) else 'mult=1'), errs[:2]
    else:
        cd=pd.DataFrame({'date':[dts[rng.randint(1,nd-1)] for _ in names[:2]]}, index=names[:2])
        if which=='close':
            first=algos.ClosePositionsAfterDates('cd'); extra={'cd':cd}
        else:
            rd=pd.DataFrame({'date':[dts[rng.randint(1,nd-1)]], 'target':[names[2]], 'factor':[rng.choice([1.0,0.5,2.0])]}, index=[names[0]])
            first=algos.RollPositionsAfterDates('rd'); extra={'rd':rd}
        sch=rng.choice([algos.RunDaily, algos.RunWeekly])()
        st=[first, sch, algos.SelectAll(), algos.SelectActive(), algos.WeighEqually(), algos.Rebalance()]
        if rng.random()<0.5: st[0]=algos.run_always(st[0]); st=[st[1],st[0]]+st[2:]
        fi = rng.random()<0.5
        if fi:
            kids=[FixedIncomeSecurity(nm) for nm in names]
            s=bt.FixedIncomeStrategy('s',[st[0],st[1],algos.SelectAll(),algos.SelectActive(),algos.WeighEqually(),algos.SetNotional('nv'),algos.Rebalance()],children=kids)
            extra['nv']=pd.Series(1e5,index=dts)
        else: s=bt.Strategy('s',st)
        t=bt.Backtest(s,data,integer_positions=False,additional_data=extra)
        try: t.run()
        except Exception as e: return ('exc',which,str(e)[:60]),None
        P=t.strategy.positions.reindex(t.strategy.data.index).fillna(0)
        if which=='close':
            for nm in cd.index:
                if nm not in P.columns: continue
                d=cd.loc[nm,'date']
                # first run date >= d: with run_always first algo runs daily; else on scheduler dates
                after=P.loc[P.index>=d, nm]
                # allow until first date the algo actually ran: find first zero then must stay zero
                nz=after[after.abs()>1e-9]
                if len(nz):
                    z=after[after.abs()<=1e-9]
                    if len(z) and z.index[0] < nz.index[-1]: errs.append(('reopened',nm,str(d)))
                    if st[1] is not first and False: pass
        else:
            nm=rd.index[0]; d=rd.loc[nm,'date']
            if nm in P.columns:
                after=P.loc[P.index>=d, nm]
                z=after[after.abs()<=1e-9]; nz=after[after.abs()>1e-9]
                if len(z) and len(nz) and z.index[0]<nz.index[-1]: errs.append(('roll-reopened',nm))
    if errs: return ('viol',errs[0][0]), errs[:2]
    return 'ok:'+which, None
cnt=collections.Counter(); ex={}
for i in range(int(sys.argv[1])):
    try: r,info=run(i)
    except Exception as e: r='HARNESS'; info=traceback.format_exc()[-500:]
    cnt[r]+=1
    if not str(r).startswith('ok') and r!='skip': ex.setdefault(r,[]).append((i,info))
for k,v in cnt.most_common():
    print(v,k)
    for e in ex.get(k,[])[:2]: print('    ',str(e)[:500])
