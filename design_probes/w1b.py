import sys, math, random, collections, traceback, copy, pickle
import numpy as np, pandas as pd
import bt
from bt.core import Security, StrategyBase, SecurityBase, Strategy
import warnings; warnings.filterwarnings('ignore')
from w1 import COMMS, gen_tree, strategies, securities, check_identity

EV = []   # event log
_orig_transact = SecurityBase.transact
_orig_adjust = StrategyBase.adjust
def transact(self, q, update=True, update_self=True, price=None):
    pre = self._position
    r = _orig_transact(self, q, update, update_self, price)
    if self._position != pre:
        EV.append(('trade', self, self.parent, q, self._price, price, self.multiplier, self._bidoffer, self.parent.now))
    return r
def adjust(self, amount, update=True, flow=True, fee=0.0):
    EV.append(('adjust', self, amount, flow, fee, self.now))
    return _orig_adjust(self, amount, update, flow, fee)
SecurityBase.transact = transact
StrategyBase.adjust = adjust

def raw_snapshot(root):
    out={}
    for m in root.members:
        d = {k: (v if not isinstance(v,float) else v) for k,v in m.__dict__.items() if k in ('_capital','_price','_value','_notl_value','_weight','_position','_net_flows','_last_value','_last_price','_last_fee','now','_outlay','_bidoffer_paid','_needupdate','_last_pos','bankrupt')}
        d['data'] = m.data.to_numpy(dtype=float, na_value=np.nan).tobytes() if hasattr(m,'data') else None
        out[m.full_name]=d
    out['stale']=root.stale
    return out

def pub_snapshot(root):
    out={}
    for m in root.members:
        d={}
        for p in ['price','value','weight','notional_value']:
            d[p]=getattr(m,p)
        for p in ['prices','values','notional_values']:
            d[p]=getattr(m,p).to_numpy(dtype=float).tobytes()
        if isinstance(m, StrategyBase):
            d['capital']=m.capital; d['fees']=m.fees.values.tobytes(); d['flows']=m.flows.values.tobytes(); d['cash']=m.cash.values.tobytes()
            d['positions']=m.positions.to_numpy(dtype=float).tobytes(); d['outlays']=m.outlays.to_numpy(dtype=float).tobytes()
        else:
            d['position']=m.position; d['positions']=m.positions.values.tobytes(); d['outlays']=m.outlays.values.tobytes()
        out[m.full_name]=d
    return out

def diffsnap(a,b):
    out=[]
    for k in a:
        if k=='stale': continue
        if k not in b: out.append((k,'missing')); continue
        for f in a[k]:
            x=a[k][f]; y=b[k].get(f)
            same = (x==y) or (isinstance(x,float) and isinstance(y,float) and math.isnan(x) and math.isnan(y))
            if not same: out.append((k,f))
    return out

def run_case(seed, mode):
    rng = random.Random(seed)
    nd = rng.randint(3,8)
    tickers = ['t%d'%i for i in range(rng.randint(2,5))]
    dts = pd.date_range('2020-01-01', periods=nd, freq='B')
    rs = np.random.RandomState(seed)
    prices = 100*np.exp(np.cumsum(rs.randn(nd,len(tickers))*0.03,axis=0)) * rs.choice([1,0.1,5], size=len(tickers))
    data = pd.DataFrame(prices, index=dts, columns=tickers)
    root = gen_tree(rng, tickers)
    integer = rng.random()<0.5
    root.use_integer_positions(integer)
    cname = rng.choice(list(COMMS)); comm = COMMS[cname]
    if comm: root.set_commissions(comm)
    kw={}
    spread = rng.random()<0.4
    if spread:
        kw['bidoffer'] = pd.DataFrame(rs.uniform(0,0.5,size=prices.shape), index=dts, columns=tickers)
    root.setup(data, **kw)
    log=[]; errs=[]
    past = None
    for di,dt in enumerate(dts):
        try:
            root.update(dt)
        except ZeroDivisionError: return [], log
        # append-only check
        if past is not None:
            for m in root.members:
                if m.full_name in past:
                    old = past[m.full_name]; cur = m.data.iloc[:di].to_numpy(dtype=float, na_value=np.nan)
                    if not np.array_equal(old, cur, equal_nan=True):
                        errs.append((('appendonly',str(dt.date()),m.full_name),'appendonly', m.full_name)); return errs, log
        if di==0: root.adjust(1e6)
        nops = rng.randint(1,6)
        for k in range(nops):
            strats = strategies(root)
            s = rng.choice(strats)
            names = list(s.children.keys()) + list(s._lazy_children.keys())
            op = rng.choice(['adjust','allocate_child','allocate_self','rebalance','close','flatten','transact','rebalance_base','sectransact'])
            del EV[:]
            try:
                pre_v = root.value
                desc=(str(dt.date()),op,s.full_name)
                ext = 0.0
                if op=='adjust':
                    a = rng.uniform(-1e5,2e5); fl = rng.random()<0.5
                    s.adjust(a, flow=fl); desc+=(a,fl); ext = a
                elif op=='allocate_child':
                    c = rng.choice(names); a = rng.uniform(-2e5,3e5)
                    s.allocate(a, child=c); desc+=(c,a)
                elif op=='allocate_self':
                    a = rng.uniform(-1e5,2e5); s.allocate(a); desc+=(a,)
                    if s is root: ext=0.0
                elif op=='rebalance':
                    c = rng.choice(names); w = rng.uniform(-0.5,0.8); s.rebalance(w, c); desc+=(c,w)
                elif op=='rebalance_base':
                    c = rng.choice(names); w = rng.uniform(-0.5,0.8); b = rng.uniform(1e4,1e6); s.rebalance(w, c, base=b); desc+=(c,w,b)
                elif op=='close':
                    if not s.children: continue
                    c = rng.choice(list(s.children.keys())); s.close(c); desc+=(c,)
                elif op=='flatten':
                    s.flatten()
                elif op=='transact':
                    c = rng.choice(names); q = rng.randint(-500,500) if integer else rng.uniform(-500,500)
                    s.transact(q, child=c); desc+=(c,q)
                elif op=='sectransact':
                    secs = securities(root)
                    if not secs or not spread: continue
                    c = rng.choice(secs); q = rng.randint(-500,500) if integer else rng.uniform(-500,500)
                    px = c.price*rng.uniform(0.97,1.03)
                    c.transact(q, price=px); desc+=(c.full_name,q,px)
                log.append(desc)
                # --- C02 per op conservation
                post_v = root.value
                evs = list(EV)
                costs = 0.0
                for e in evs:
                    if e[0]=='trade':
                        _, sec, par, q, p, cp, mlt, bo, now = e
                        if cp is None:
                            fee = par.commission_fn(q, p*mlt); sp = abs(q)*0.5*bo*mlt
                        else:
                            fee = par.commission_fn(q, cp*mlt); sp = q*(cp-p)*mlt
                        costs += fee + sp
                scale = 1+abs(pre_v)+sum(abs(x.value) for x in securities(root))
                if abs(post_v - (pre_v + ext - costs)) > 1e-9*scale:
                    errs.append((desc,'conservation', pre_v, post_v, ext, costs, len(evs))); return errs, log
                # --- C08 idempotence: redundant updates
                if mode=='idem':
                    a = raw_snapshot(root)
                    for _ in range(rng.randint(1,3)): root.update(dt)
                    b = raw_snapshot(root)
                    d = diffsnap(a,b)
                    if d: errs.append((desc,'idempotence', d[:5])); return errs, log
            except ZeroDivisionError as e:
                return [], log
            except Exception as e:
                errs.append(('EXC', desc, type(e).__name__, str(e)[:80], traceback.format_exc()[-300:])); return errs, log
            # freshness: copy-based
            if mode=='fresh':
                # perform a pending op without update then compare reads
                s2 = rng.choice(strategies(root))
                try:
                    s2.adjust(rng.uniform(-1e3,1e3), flow=rng.random()<0.5)
                    if s2.children and rng.random()<0.7:
                        c = rng.choice(list(s2.children.values()))
                        if isinstance(c, SecurityBase): c.transact(rng.randint(1,20), update=rng.random()<0.8)
                    A = copy.deepcopy(root); B = copy.deepcopy(root)
                    B.update(B.now); pb = pub_snapshot(B)
                    ma = rng.choice(A.members)
                    props = [p for p in pb[ma.full_name]]
                    pr = rng.choice(props)
                    va = getattr(ma, pr)
                    if hasattr(va,'to_numpy'): va = va.to_numpy(dtype=float).tobytes()
                    vb = pb[ma.full_name][pr]
                    same = (va==vb) or (isinstance(va,float) and isinstance(vb,float) and math.isnan(va) and math.isnan(vb))
                    if not same: errs.append((desc,'freshness', (type(ma).__name__, pr), 'stale=%s'%root.stale)); return errs, log
                except ZeroDivisionError: return [], log
        try:
            root.update(dt)
            past = {m.full_name: m.data.iloc[:di+1].to_numpy(dtype=float, na_value=np.nan).copy() for m in root.members}
        except ZeroDivisionError: return [], log
    return errs, log

if __name__=='__main__':
    N=int(sys.argv[1]); mode=sys.argv[2]; base=int(sys.argv[3]) if len(sys.argv)>3 else 0
    cnt=collections.Counter(); ex={}
    for i in range(N):
        try:
            errs, log = run_case(base+i, mode)
        except Exception as e:
            cnt[("HARNESS",type(e).__name__,str(e)[:60])]+=1; ex.setdefault(("HARNESS",type(e).__name__,str(e)[:60]), traceback.format_exc()[-600:]); continue
        if not errs: cnt['ok']+=1
        for er in errs[:1]:
            if er[0]=='EXC': key=('EXC',er[2],er[3][:50],er[1][1])
            else: key=(er[1], er[0][1], str(er[2])[:80] if er[1] in('idempotence','freshness') else '')
            cnt[key]+=1
            ex.setdefault(key, (base+i, er, log[-3:]))
    for k,v in cnt.most_common(): 
        print(v,k)
        if k in ex: print('    ', str(ex[k])[:900])
