import sys, random, collections, traceback, hashlib
import numpy as np, pandas as pd, bt
from bt.core import StrategyBase, SecurityBase, AlgoStack
from w2 import gen_backtest
import warnings; warnings.filterwarnings('ignore')
class Probe(bt.Algo):
    def __init__(self, inner, rng, mode):
        super().__init__(); self.inner=inner; self.rng=rng; self.mode=mode
        if hasattr(inner,'run_always'): self.run_always=inner.run_always
    def __call__(self, target):
        r=self.rng.random()
        if r<0.3:
            for _ in range(self.rng.randint(1,2)): target.root.update(target.root.now)
        elif r<0.6:
            m=self.rng.choice(target.root.members)
            for p in self.rng.sample(['value','weight','price','prices','values','notional_value'],2): getattr(m,p)
            if isinstance(m,StrategyBase): m.positions; m.fees; m.flows; m.cash; m.universe
            else: m.positions; m.outlays
        return self.inner(target)
def wrap(strategy, rng):
    for m in strategy.members:
        if hasattr(m,'stack'):
            m.stack = AlgoStack(*[Probe(a, rng, 0) for a in m.stack.algos])
def digest(root):
    h=hashlib.md5()
    for m in root.members:
        h.update(m.full_name.encode()); h.update(m.data.to_numpy(dtype=float,na_value=np.nan).tobytes())
    return h.hexdigest()
def run(seed):
    make,desc,data,extras=gen_backtest(seed)
    random.seed(seed); np.random.seed(seed)
    a=make()
    try: a.run()
    except Exception: return 'exc',None
    make,desc,data,extras=gen_backtest(seed)
    b=make(); wrap(b.strategy, random.Random(seed+1))
    random.seed(seed); np.random.seed(seed)
    try: b.run()
    except Exception as e: return 'exc-b',(desc,str(e)[:80])
    if a.strategy.bankrupt: return 'bankrupt',None
    da=digest(a.strategy); db=digest(b.strategy)
    if da!=db:
        # find first diff
        for ma,mb in zip(a.strategy.members,b.strategy.members):
            xa=ma.data.to_numpy(dtype=float,na_value=np.nan); xb=mb.data.to_numpy(dtype=float,na_value=np.nan)
            if xa.shape!=xb.shape: return 'DIFF',(desc,'shape',ma.full_name)
            if not np.array_equal(xa,xb,equal_nan=True):
                idx=np.argwhere(~((xa==xb)|(np.isnan(xa)&np.isnan(xb))))[0]
                return 'DIFF',(desc,ma.full_name,list(ma.data.columns)[idx[1]],str(ma.data.index[idx[0]]),xa[tuple(idx)],xb[tuple(idx)])
        return 'DIFF',(desc,'members')
    return 'ok',None
cnt=collections.Counter(); ex={}
for i in range(int(sys.argv[1])):
    try: r,info=run(i)
    except Exception as e: r='HARNESS'; info=traceback.format_exc()[-500:]
    cnt[r]+=1
    if r not in('ok','exc','bankrupt'): ex.setdefault(r,[]).append((i,info))
for k,v in cnt.most_common():
    print(v,k)
    for e in ex.get(k,[])[:4]: print('    ',str(e)[:600])
