import sys, math, random, collections, traceback
import numpy as np, pandas as pd
import bt
from bt.core import StrategyBase, SecurityBase
import w2
from w2 import gen_backtest, COMMS
import warnings; warnings.filterwarnings('ignore')

def histories(root, upto):
    out={}
    for m in root.members:
        df = m.data.loc[:upto]
        out[m.full_name] = df.to_numpy(dtype=float, na_value=np.nan).tobytes()
        if isinstance(m, SecurityBase): out[m.full_name+'#p'] = m._prices.loc[:upto].to_numpy(dtype=float).tobytes()
    return out

def perturb(df, t, rs):
    df = df.copy()
    mask = df.index > t
    if mask.sum()==0: return df
    if df.dtypes.iloc[0]==bool:
        df.loc[mask] = rs.rand(mask.sum(), df.shape[1])>0.5
    else:
        blk = df.loc[mask].to_numpy(dtype=float)
        blk = blk*np.exp(rs.randn(*blk.shape)*0.1) + 0.0
        df.loc[mask] = blk
    return df

def run(seed):
    rng = random.Random(seed*7+1)
    make, desc, data, extras = gen_backtest(seed)
    random.seed(seed); np.random.seed(seed)
    t1 = make()
    try: t1.run()
    except Exception as e: return 'exc1', desc
    dates = data.index
    res='ok'
    for k in range(2):
        cut = dates[rng.randint(0, len(dates)-2)]
        rs = np.random.RandomState(seed*13+k)
        # regenerate the same backtest but with perturbed data: need the generator to accept data override -> re-create via gen then patch
        make2, desc2, data2, extras2 = gen_backtest(seed)
        pdata = perturb(data2, cut, rs)
        pex = {k:(perturb(v, cut, rs) if isinstance(v,pd.DataFrame) else v) for k,v in extras2.items()}
        # rebuild backtest with same strategy template: hack: call make2 internals
        t_tmp = make2()
        strat = t_tmp.strategy  # already a copy of template, unrun
        random.seed(seed); np.random.seed(seed)
        t2 = bt.Backtest(strat, pdata, integer_positions=desc['integer'], commissions=COMMS[desc['comm']], initial_capital=t_tmp.initial_capital, additional_data=pex)
        try: t2.run()
        except Exception as e:
            pass
        h1 = histories(t1.strategy, cut); h2 = histories(t2.strategy, cut)
        keys = set(h1)|set(h2)
        bad = [k for k in keys if h1.get(k)!=h2.get(k)]
        # nodes that exist only later are fine if created after cut; compare only nodes present in both w/ rows
        bad = [k for k in bad if k in h1 and k in h2]
        missing = [k for k in keys if (k in h1) != (k in h2)]
        if bad: return 'DIFF', (desc, str(cut), bad[:4])
    return res, desc

if __name__=='__main__':
    N=int(sys.argv[1]); base=int(sys.argv[2]) if len(sys.argv)>2 else 0
    cnt=collections.Counter(); ex={}
    for i in range(N):
        try: r, info = run(base+i)
        except Exception as e: r='HARNESS'; info=traceback.format_exc()[-600:]
        cnt[r]+=1
        if r in('DIFF','HARNESS'): ex.setdefault(r,[]).append((base+i,info))
    for k,v in cnt.most_common():
        print(v,k)
        for e in ex.get(k,[])[:6]: print('    ', str(e)[:900])
