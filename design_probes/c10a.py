import sys, random, collections, traceback, io, contextlib
import numpy as np, pandas as pd, bt
from w2 import gen_backtest
import warnings; warnings.filterwarnings('ignore')
import matplotlib; matplotlib.use('Agg')
def run(seed):
    make,desc,data,extras=gen_backtest(seed)
    random.seed(seed); np.random.seed(seed)
    t=make()
    try:
        with contextlib.redirect_stderr(io.StringIO()): res=bt.run(t)
    except Exception as e: return ('run-exc',type(e).__name__,str(e)[:50]),None
    bad=[]
    for nm,fn in [('stats',lambda: res.stats),('prices',lambda: res.prices),('display',lambda: res.display()),('tx',lambda: res.get_transactions()),
                  ('get_weights',lambda: res.get_weights()),('get_sw',lambda: res.get_security_weights()),('weights',lambda: t.weights),('sw',lambda: t.security_weights),
                  ('positions',lambda: t.positions),('hhi',lambda: t.herfindahl_index),('turnover',lambda: t.turnover),('lookback',lambda: res.lookback_returns), ('monthly', lambda: res.display_monthly_returns())]:
        try:
            with contextlib.redirect_stdout(io.StringIO()): fn()
        except Exception as e: bad.append((nm,type(e).__name__,str(e)[:60]))
    s=t.strategy
    for m in s.members:
        cols=[c for c in m.data.columns if c not in ('price',) or hasattr(m,'_capital') and m in [x for x in s.members if hasattr(x,'stack') or True]]
        arr=m.data[[c for c in m.data.columns if not (c=='price' and not hasattr(m,'commission_fn'))]].to_numpy(dtype=float,na_value=np.nan)
        if not np.isfinite(arr).all(): bad.append(('nonfinite',m.full_name,[c for c in m.data.columns if not np.isfinite(m.data[c].to_numpy(dtype=float,na_value=np.nan)).all()]))
    if bad: return ('bad',)+tuple(bad[0][:2]), (desc,bad[:3])
    return 'ok',None
cnt=collections.Counter(); ex={}
for i in range(int(sys.argv[1])):
    try: r,info=run(i)
    except Exception as e: r='HARNESS'; info=traceback.format_exc()[-500:]
    cnt[r]+=1
    if r!='ok': ex.setdefault(r,[]).append((i,info))
for k,v in cnt.most_common():
    print(v,k)
    for e in ex.get(k,[])[:2]: print('    ',str(e)[:500])
