import sys, math, random, collections, traceback
import numpy as np, pandas as pd
import bt
from bt.core import StrategyBase, SecurityBase
from w2 import gen_backtest
import warnings; warnings.filterwarnings('ignore')

EV=[]
_ot = SecurityBase.transact; _oa = StrategyBase.adjust
def transact(self, q, update=True, update_self=True, price=None):
    pre=self._position
    r=_ot(self,q,update,update_self,price)
    if self._position!=pre: EV.append(('trade', self, self.parent, q, self._price, price, self.multiplier, self._bidoffer, self.parent.now))
    return r
def adjust(self, amount, update=True, flow=True, fee=0.0):
    EV.append(('adjust', self, amount, flow, fee, self.now)); return _oa(self, amount, update, flow, fee)
SecurityBase.transact=transact; StrategyBase.adjust=adjust

def check(seed):
    make, desc, data, extras = gen_backtest(seed)
    random.seed(seed); np.random.seed(seed)
    t = make(); del EV[:]
    try: t.run()
    except Exception as e: return 'exc', None
    root = t.strategy
    real = set(id(m) for m in root.members)
    evs = [e for e in EV if id(e[1]) in real]
    errs=[]
    dates = root.data.index
    # per-date aggregates from events
    trades = collections.defaultdict(list); adjs=collections.defaultdict(list)
    for e in evs:
        if e[0]=='trade': trades[e[8]].append(e)
        else: adjs[(id(e[1]), e[5])].append(e)
    strats=[m for m in root.members if isinstance(m,StrategyBase)]
    secs=[m for m in root.members if isinstance(m,SecurityBase)]
    V = root.values; P = root.prices; F = root.flows
    if root.bankrupt: return 'bankrupt', None
    # C03 recurrence with independent flows
    for i,dt in enumerate(dates):
        fl = sum(e[2] for e in adjs.get((id(root), dt if i>0 else dt), []) if e[3])
        if i==0:
            fl = sum(e[2] for e in evs if e[0]=='adjust' and e[1] is root and e[3] and (e[5]==0 or e[5]==dt))
            if abs(P.iloc[0]-100)>1e-9: errs.append(('price0', P.iloc[0]))
            if abs(F.iloc[0]-fl)>1e-6: errs.append(('flow0', F.iloc[0], fl))
            continue
        if abs(F.iloc[i]-fl)>1e-6*(1+abs(fl)): errs.append(('flows', str(dt), F.iloc[i], fl))
        base = V.iloc[i-1]+fl
        if abs(base)>1e-12:
            exp = P.iloc[i-1]*V.iloc[i]/base
            if abs(P.iloc[i]-exp)>1e-9*abs(exp): errs.append(('recurrence', str(dt), P.iloc[i], exp))
    # C02 daily decomposition
    for i,dt in enumerate(dates):
        if i==0: continue
        mtm=0.0
        for s in secs:
            pos = s._positions.iloc[i-1]
            if pos!=0:
                mtm += pos*(s._prices.iloc[i]-s._prices.iloc[i-1])*s.multiplier
        fl = sum(e[2] for e in adjs.get((id(root),dt),[]) if e[3])
        costs=0.0
        for e in trades.get(dt,[]):
            _,sec,par,q,p,cp,mlt,bo,now = e
            if cp is None: costs += par.commission_fn(q,p*mlt) + abs(q)*0.5*bo*mlt
            else: costs += par.commission_fn(q,cp*mlt) + q*(cp-p)*mlt
        exp = V.iloc[i-1] + mtm + fl - costs
        scale = 1+abs(V.iloc[i])+sum(abs(s._positions.iloc[i-1]*s._prices.iloc[i-1]*s.multiplier) for s in secs if s._positions.iloc[i-1]!=0)
        if abs(V.iloc[i]-exp) > 1e-9*scale: errs.append(('pnl', str(dt), V.iloc[i], exp, mtm, fl, costs))
    # C07 ledger per strategy
    for s in strats:
        own_secs=[c for c in s.children.values() if isinstance(c,SecurityBase)]
        subs=[c for c in s.children.values() if isinstance(c,StrategyBase)]
        for i,dt in enumerate(dates):
            if i==0: continue
            dcash = s._cash.iloc[i]-s._cash.iloc[i-1]
            infl = s._all_flows.iloc[i]
            outl = sum(c._outlays.iloc[i] for c in own_secs)
            fees = s._fees.iloc[i]
            tosubs = sum(c._all_flows.iloc[i] for c in subs)
            exp = infl - outl - fees - tosubs
            if abs(dcash-exp) > 1e-8*(1+abs(dcash)+abs(outl)): errs.append(('ledger', s.full_name, str(dt), dcash, exp, infl,outl,fees,tosubs))
            # fee vs trade log
            efee = sum(e[2].commission_fn(e[3], (e[4] if e[5] is None else e[5])*e[6]) for e in trades.get(dt,[]) if e[2] is s)
            if abs(fees-efee)>1e-9*(1+abs(efee)): errs.append(('fees', s.full_name, str(dt), fees, efee))
            eout = collections.defaultdict(float)
            for e in trades.get(dt,[]):
                if e[2] is s:
                    _,sec,par,q,p,cp,mlt,bo,now = e
                    eout[id(sec)] += q*p*mlt + (abs(q)*0.5*bo*mlt if cp is None else q*(cp-p)*mlt)
            for c in own_secs:
                if abs(c._outlays.iloc[i]-eout.get(id(c),0.0))>1e-8*(1+abs(eout.get(id(c),0.0))): errs.append(('outlay', c.full_name, str(dt), c._outlays.iloc[i], eout.get(id(c),0.0)))
    return ('viol' if errs else 'ok'), (desc, errs[:3])

if __name__=='__main__':
    N=int(sys.argv[1]); base=int(sys.argv[2]) if len(sys.argv)>2 else 0
    cnt=collections.Counter(); ex={}
    for i in range(N):
        try: r, info = check(base+i)
        except Exception as e: r='HARNESS'; info=traceback.format_exc()[-500:]
        key = r if r!='viol' else ('viol', info[1][0][0])
        cnt[key]+=1
        if r in('viol','HARNESS'): ex.setdefault(key,(base+i,info))
    for k,v in cnt.most_common():
        print(v,k)
        if k in ex: print('    ', str(ex[k])[:1200])
