import itertools, collections, sys
import bt
from bt.core import AlgoStack
from bt import algos
class M:
    def __init__(s, tag, ret, ra, log): s.tag=tag; s.ret=ret; s.log=log
    def __call__(s, t): s.log.append(s.tag); return s.ret
def mk(tag, ret, ra, log):
    m=M(tag,ret,ra,log)
    if ra is not None: m.run_always=ra
    return m
def ref(spec):
    """spec: list of (ret, ra) -> (called tags, result truthy)"""
    called=[]; res=True; failed=False
    for i,(ret,ra) in enumerate(spec):
        if not failed:
            called.append(i)
            if not ret: failed=True; res=False
        else:
            if ra: called.append(i)
    return called, res
cnt=collections.Counter()
opts=[(r,ra) for r in (True,False) for ra in (None,True,False)]
for L in range(0,6):
    for spec in itertools.product(opts, repeat=L):
        log=[]
        st=AlgoStack(*[mk(i,r,ra,log) for i,(r,ra) in enumerate(spec)])
        res=st(None)
        ec,er=ref(spec)
        if log!=ec or bool(res)!=er: cnt['viol']+=1; print('VIOL',spec,log,ec,res,er) if cnt['viol']<5 else None
        else: cnt['ok']+=1
# Or / Not
for L in range(1,4):
    for spec in itertools.product((True,False), repeat=L):
        log=[]; o=algos.Or([mk(i,r,None,log) for i,r in enumerate(spec)])
        res=o(None)
        if log!=list(range(L)) or bool(res)!=any(spec): cnt['or-viol']+=1
        else: cnt['or-ok']+=1
for r in (True,False):
    log=[]; n=algos.Not(mk(0,r,None,log)); 
    cnt['not-ok' if (n(None) == (not r) and log==[0]) else 'not-viol']+=1
print(cnt)
