import sys, random, collections, traceback
import numpy as np, pandas as pd, bt
from bt.core import StrategyBase, SecurityBase
from w2 import gen_backtest
import warnings; warnings.filterwarnings('ignore')
SNAP={}   # (id(root), date) -> {full_name: (value, cash, position, notl)}
DEPTH=collections.Counter()
_ou=StrategyBase.update
def update(self, date, data=None, inow=None):
    isroot = self.parent is self
    if isroot: DEPTH[id(self)]+=1
    try:
        return _ou(self, date, data, inow)
    finally:
        if isroot:
            DEPTH[id(self)]-=1
            if DEPTH[id(self)]==0:
                d={}
                for m in self.members:
                    if isinstance(m,StrategyBase): d[m.full_name]=('S',m._value,m._capital,m._notl_value,m._price)
                    else: d[m.full_name]=('X',m._value,m._position,m._notl_value,m.now)
                SNAP[(id(self),date)]=d
StrategyBase.update=update
def run(seed):
    make,desc,data,extras=gen_backtest(seed)
    random.seed(seed); np.random.seed(seed); SNAP.clear()
    t=make()
    try: t.run()
    except Exception: return 'exc',None
    root=t.strategy
    if root.bankrupt: return 'bankrupt',None
    n=0
    for (rid,date),d in SNAP.items():
        if rid!=id(root): continue
        for m in root.members:
            rec=d.get(m.full_name)
            if rec is None:
                # node created later: rows must be flat
                if isinstance(m,SecurityBase):
                    if m.data.loc[date,'position']!=0 or m.data.loc[date,'value']!=0: return 'VIOL-latecreated',(m.full_name,str(date))
                continue
            row=m.data.loc[date]
            if rec[0]=='S':
                if not (row['value']==rec[1] and row['cash']==rec[2] and row['notional_value']==rec[3] and row['price']==rec[4]): return 'VIOL-strat',(desc,m.full_name,str(date),dict(row),rec)
            else:
                if rec[4]!=date:
                    # security lagging (skipped): rows must be flat for this date
                    if row['position']!=0 or row['value']!=0: return 'VIOL-lag',(m.full_name,str(date),dict(row),rec)
                elif not (row['value']==rec[1] and row['position']==rec[2] and row['notional_value']==rec[3]): return 'VIOL-sec',(desc,m.full_name,str(date),dict(row),rec)
            n+=1
    return 'ok',n
cnt=collections.Counter(); ex={}; tot=0
for i in range(int(sys.argv[1])):
    try: r,info=run(i)
    except Exception as e: r='HARNESS'; info=traceback.format_exc()[-500:]
    cnt[r]+=1
    if r=='ok': tot+=info
    elif r not in('exc','bankrupt'): ex.setdefault(r,[]).append((i,info))
print(cnt, 'row-comparisons', tot)
for k,v in ex.items(): print(k, str(v[:2])[:700])
