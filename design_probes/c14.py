import sys, random, collections, traceback
import numpy as np, pandas as pd, bt
from bt import algos
import warnings; warnings.filterwarnings('ignore')
def mk(seed):
    rng=random.Random(seed); rs=np.random.RandomState(seed)
    nd=rng.randint(8,40); n=rng.randint(2,7); cols=['t%d'%i for i in range(n)]
    freq=rng.choice(['B','D','2D','W-FRI'])
    dts=pd.date_range('2020-01-10',periods=nd,freq=freq)
    px=100*np.exp(np.cumsum(rs.randn(nd,n)*0.03,axis=0))
    data=pd.DataFrame(px,index=dts,columns=cols)
    for c in cols:
        r=rng.random()
        if r<0.3: data.loc[dts[:rng.randint(1,nd-1)],c]=np.nan
        elif r<0.45:
            for k in rng.sample(range(nd), rng.randint(1,4)): data.loc[dts[k],c]=np.nan
        elif r<0.55: data.loc[dts[rng.randint(0,nd-1)]:,c]=0.0
        elif r<0.6: data.loc[dts[rng.randint(0,nd-1)],c]=-5.0
    s=bt.Strategy('s',[]); s.setup(data)
    i=rng.randint(0,nd-1); s.update(dts[i]); 
    return rng,rs,data,s,dts[i],cols
def tradable(data,now,names,nodata,neg):
    row=data.loc[now]
    out=[]
    for c in names:
        v=row[c]
        if np.isnan(v):
            continue
        if v<=0 and not neg: continue
        out.append(c)
    return out
def run(seed):
    rng,rs,data,s,now,cols=mk(seed)
    which=rng.choice(['all','these','hasdata','stat','momentum','selectn','where','randomly'])
    prior = rng.choice([None, rng.sample(cols, rng.randint(1,len(cols)))])
    s.temp={}
    if prior is not None and which in('hasdata','randomly','stat','momentum','selectn'): s.temp['selected']=list(prior)
    nd_=rng.random()<0.2; ng=rng.random()<0.2
    lb=pd.DateOffset(days=rng.choice([3,7,14,30])); lag=pd.DateOffset(days=rng.choice([0,0,1,2,7]))
    try:
        if which=='all':
            algos.SelectAll(nd_,ng)(s); got=list(s.temp['selected'])
            exp = list(cols) if nd_ else tradable(data,now,cols,nd_,ng)
        elif which=='these':
            tk=rng.sample(cols,rng.randint(1,len(cols))); algos.SelectThese(tk,nd_,ng)(s); got=list(s.temp['selected'])
            exp = tk if nd_ else tradable(data,now,tk,nd_,ng)
        elif which=='hasdata':
            mc=rng.randint(1,6); algos.SelectHasData(lb,mc,nd_,ng)(s); got=list(s.temp['selected'])
            base=prior if prior is not None else cols
            win=data.loc[(data.index>=now-lb)&(data.index<=now)]
            exp=[c for c in base if win[c].count()>=mc]
            if not nd_: exp=[c for c in exp if c in tradable(data,now,exp,False,ng)]
        elif which=='stat':
            if 'selected' not in s.temp: s.temp['selected']=list(cols)
            sel=s.temp['selected']
            r=algos.StatTotalReturn(lb,lag)(s)
            t0=now-lag
            if data.index[0]>t0:
                return ('ok' if r is False else ('viol','stat-should-be-False')), None
            win=data.loc[(data.index>=t0-lb)&(data.index<=t0), sel]
            if len(win)==0: return 'skip-emptywin', None
            exp=win.iloc[-1]/win.iloc[0]-1
            got=s.temp['stat']
            ok = r is True and list(got.index)==list(exp.index) and np.allclose(got.values,exp.values,equal_nan=True)
            return ('ok' if ok else ('viol','stat')), (got.to_dict(),exp.to_dict())
        elif which=='momentum':
            if 'selected' not in s.temp: s.temp['selected']=list(cols)
            sel=list(s.temp['selected']); n=rng.randint(1,len(cols)); desc=rng.random()<0.7; aon=rng.random()<0.3
            r=algos.SelectMomentum(n,lb,lag,desc,aon)(s)
            t0=now-lag
            if data.index[0]>t0: return ('ok' if not r else ('viol','mom-should-be-False')), None
            win=data.loc[(data.index>=t0-lb)&(data.index<=t0), sel]
            if len(win)==0: return 'skip-emptywin', None
            st=(win.iloc[-1]/win.iloc[0]-1).dropna()
            got=list(s.temp['selected']); k=min(n,len(st))
            if aon and len(st)<n: exp_ok = got==[]
            else:
                gs=set(got); rest=[c for c in st.index if c not in gs]
                exp_ok = len(got)==k and len(gs)==k and gs<=set(st.index) and all((st[a]>=st[b]) if desc else (st[a]<=st[b]) for a in gs for b in rest)
            return ('ok' if exp_ok else ('viol','momentum')), (got, st.to_dict(), n, desc, aon)
        elif which=='selectn':
            st=pd.Series(rs.randn(len(cols)).round(1), index=cols)
            for c in rng.sample(cols, rng.randint(0,2)): st[c]=np.nan
            s.temp['stat']=st.copy(); n=rng.choice([1,2,3,0.5,0.34,0.9]); desc=rng.random()<0.5; aon=rng.random()<0.3; fs=rng.random()<0.5
            algos.SelectN(n,desc,aon,fs)(s); got=list(s.temp['selected'])
            cand=st.dropna()
            if fs and prior is not None: cand=cand[[c for c in cand.index if c in prior]]
            k = n if n>=1 else int(n*len(cand))
            kk=min(k,len(cand)); gs=set(got); rest=[c for c in cand.index if c not in gs]
            if aon and len(cand)<k: ok = got==[]
            else: ok = len(got)==kk and len(gs)==kk and gs<=set(cand.index) and all((cand[a]>=cand[b]) if desc else (cand[a]<=cand[b]) for a in gs for b in rest)
            return ('ok' if ok else ('viol','selectn')), (got, cand.to_dict(), n, desc, aon, fs, prior)
        elif which=='where':
            sig=pd.DataFrame(rs.rand(len(data),len(cols))>0.5,index=data.index,columns=cols)
            if rng.random()<0.3: sig=sig.iloc[::2]
            s.temp['selected']=['zz']
            algos.SelectWhere(sig,nd_,ng)(s); got=list(s.temp['selected'])
            if now in sig.index:
                tr=[c for c in cols if sig.loc[now,c]]
                exp = tr if nd_ else tradable(data,now,tr,False,ng)
            else: exp=['zz']
        elif which=='randomly':
            n=rng.choice([None,1,2,3,10]); random.seed(seed)
            algos.SelectRandomly(n,nd_,ng)(s); got=list(s.temp['selected'])
            base=prior if prior is not None else cols
            pool = list(base) if nd_ else tradable(data,now,base,False,ng)
            k=len(pool) if n is None else min(n,len(pool))
            ok = len(got)==k and len(set(got))==k and set(got)<=set(pool)
            return ('ok' if ok else ('viol','randomly')), (got,pool,n)
    except Exception as e:
        return ('EXC',which,type(e).__name__,str(e)[:60]), None
    return ('ok' if set(got)==set(exp) and len(got)==len(exp) else ('viol',which,nd_,ng)), (got,exp,str(now))
cnt=collections.Counter(); ex={}
for i in range(int(sys.argv[1])):
    try: r,info=run(i)
    except Exception as e: r='HARNESS'; info=traceback.format_exc()[-400:]
    cnt[r]+=1
    if r not in('ok','skip-emptywin'): ex.setdefault(r,[]).append((i,info))
for k,v in cnt.most_common():
    print(v,k)
    for e in ex.get(k,[])[:2]: print('    ',str(e)[:500])
