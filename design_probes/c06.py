import sys, math, random, collections, traceback, copy
import numpy as np, pandas as pd
import bt
from bt import algos
from bt.core import Security, StrategyBase, SecurityBase, Strategy
import warnings; warnings.filterwarnings('ignore')
COMMS = {'none': None,'prop': lambda q,p: abs(q)*p*0.001,'fixprop': lambda q,p: (1.0 + abs(q)*p*0.0005) if q!=0 else 0.0,'max1': lambda q,p: max(1.0, abs(q)*0.01)}
EV=[]
_ot = SecurityBase.transact
def transact(self, q, update=True, update_self=True, price=None):
    pre=self._position; r=_ot(self,q,update,update_self,price)
    if self._position!=pre: EV.append((self, self.parent, q, self._price, price, self.multiplier, self._bidoffer))
    return r
SecurityBase.transact=transact
def run(seed, use_cash):
    rng=random.Random(seed); rs=np.random.RandomState(seed)
    tickers=['t%d'%i for i in range(rng.randint(2,5))]
    nd=4; dts=pd.date_range('2020-01-01',periods=nd,freq='B')
    prices = 100*np.exp(np.cumsum(rs.randn(nd,len(tickers))*0.03,axis=0))*rs.choice([1,0.1,5],size=len(tickers))
    data=pd.DataFrame(prices,index=dts,columns=tickers)
    nested = rng.random()<0.4
    kids=list(tickers)
    if nested:
        sub = Strategy('sub', [], children=rng.sample(tickers, rng.randint(1,len(tickers))))
        kids = kids+[sub]
    root=Strategy('root',[],children=kids)
    integer=rng.random()<0.5; root.use_integer_positions(integer)
    cname=rng.choice(list(COMMS)); comm=COMMS[cname]
    if comm: root.set_commissions(comm)
    kw={}
    if rng.random()<0.3: kw['bidoffer']=pd.DataFrame(rs.uniform(0,0.3,size=prices.shape),index=dts,columns=tickers)
    root.setup(data,**kw); root.update(dts[0]); root.adjust(1e6); root.update(dts[0])
    names = tickers+(['sub'] if nested else [])
    # prior portfolio
    prior = rng.choice(['flat','some','all','short'])
    try:
        if prior!='flat':
            for n in rng.sample(names, rng.randint(1,len(names))):
                w = rng.uniform(0.05,0.3) * (-1 if (prior=='short' and rng.random()<0.5 and n!='sub') else 1)
                root.rebalance(w, n)
            if nested and 'sub' in root.children and root['sub'].value!=0:
                sub=root['sub']
                for n in list(sub._lazy_children.keys())[:2]: sub.rebalance(rng.uniform(0.2,0.5), n)
        root.update(dts[1])
        # targets
        tg = rng.sample(names, rng.randint(1,len(names)))
        ws = rs.dirichlet(np.ones(len(tg)))*rng.uniform(0.3,1.0)
        if rng.random()<0.3 and tg[0]!='sub': ws[0]=-ws[0]
        targets=dict(zip(tg,[float(x) for x in ws]))
        root.temp={'weights':dict(targets)}
        cash=0.0
        if use_cash: cash=rng.uniform(0.05,0.5); root.temp['cash']=cash
        V0=root.value
        pre={n:(root.children[n].value if n in root.children else 0.0) for n in names}
        del EV[:]
        algos.Rebalance()(root)
    except ZeroDivisionError: return 'zerodiv',None
    except Exception as e:
        return ('EXC',str(e)[:40]),None
    costs=collections.defaultdict(float)
    for sec,par,q,p,cp,mlt,bo in EV:
        c = par.commission_fn(q,p*mlt)+abs(q)*0.5*bo*mlt
        node=sec
        while node is not root:
            top=node; node=node.parent
        costs[top.name]+=c
    errs=[]
    for n in names:
        c = root.children.get(n)
        if n in targets:
            T = (1-cash)*targets[n]*V0
            v = c.value
            if isinstance(c, SecurityBase):
                unit = c.price*c.multiplier
                tol = (unit if integer else 0.0) + 2*sum(costs.values()) + 1e-6*(1+abs(T))
            else:
                # sub-strategy: value changes by amount minus its costs; integer slack arises inside sub
                slack = sum(x.price*x.multiplier for x in c.children.values()) if integer else 0.0
                tol = slack + 2*sum(costs.values()) + 1e-6*(1+abs(T))
            if abs(v-T)>tol: errs.append(('target',n,type(c).__name__,v,T,tol,prior,integer,cname))
        else:
            if c is not None:
                if isinstance(c,SecurityBase):
                    if c.position!=0: errs.append(('notclosed',n,c.position))
                else:
                    if abs(c.value)>1e-6: errs.append(('subnotclosed',n,c.value,{k:x.position for k,x in c.children.items()}))
    if errs: return ('viol',errs[0][0], errs[0][2] if errs[0][0]=='target' else ''), errs[:2]
    return 'ok',None
if __name__=='__main__':
    N=int(sys.argv[1]); use_cash=sys.argv[2]=='cash'
    cnt=collections.Counter(); ex={}
    for i in range(N):
        try: r,info=run(i,use_cash)
        except Exception as e: r='HARNESS'; info=traceback.format_exc()[-500:]
        cnt[r]+=1
        if r not in('ok','zerodiv'): ex.setdefault(r,[]).append((i,info))
    for k,v in cnt.most_common():
        print(v,k)
        for e in ex.get(k,[])[:3]: print('    ',str(e)[:600])
