import sys, random, collections, traceback, copy
import numpy as np, pandas as pd, bt
from bt import algos
import warnings; warnings.filterwarnings('ignore')
COMMS={'none':None,'prop':lambda q,p: abs(q)*p*0.001}
def mkstack(rng, rs, data, flows):
    cols=list(data.columns)
    sch=rng.choice([algos.RunDaily, algos.RunWeekly, algos.RunMonthly])()
    w=rng.choice(['equal','spec','invvol'])
    st=[]
    if flows is not None: st.append(algos.run_always(FlowAlgo(flows)))
    st+= [sch, algos.SelectAll()]
    if w=='equal': st.append(algos.WeighEqually())
    elif w=='spec': 
        ws=rs.dirichlet(np.ones(len(cols)))*rng.uniform(0.5,1.0); st.append(algos.WeighSpecified(**dict(zip(cols,[float(x) for x in ws]))))
    else: st+=[algos.RunAfterDays(8), algos.WeighInvVol(lookback=pd.DateOffset(days=12))]
    st.append(algos.Rebalance())
    return st
class FlowAlgo(bt.Algo):
    def __init__(s, sched): super().__init__(); s.sched=sched
    def __call__(s,t):
        a=s.sched.get(t.now)
        if a: t.adjust(a)
        return True
def run(seed):
    rng=random.Random(seed); rs=np.random.RandomState(seed)
    nd=rng.randint(20,50); cols=['t%d'%i for i in range(rng.randint(2,4))]
    dts=pd.date_range('2020-01-01',periods=nd,freq='B')
    rets=rs.randn(nd,len(cols))*0.02
    flat_days=sorted(rng.sample(range(2,nd), rng.randint(1,4)))
    for d in flat_days: rets[d,:]=0.0
    data=pd.DataFrame(100*np.exp(np.cumsum(rets,axis=0)),index=dts,columns=cols)
    cname=rng.choice(list(COMMS)); bo = rng.random()<0.3
    extras={'bidoffer':pd.DataFrame(rs.uniform(0,0.2,size=data.shape),index=dts,columns=cols)} if bo else {}
    res={}
    # B: scale invariance
    base_flows={dts[i]:rng.uniform(-2e4,5e4) for i in rng.sample(range(1,nd), rng.randint(0,3))}
    rng_state=rng.getstate(); rs_state=rs.get_state()
    def go(k, flows):
        r2=random.Random(seed+1); rs2=np.random.RandomState(seed+1)
        st=mkstack(r2, rs2, data, {d:a*k for d,a in flows.items()} if flows is not None else None)
        t=bt.Backtest(bt.Strategy('s',st), data, integer_positions=False, commissions=COMMS[cname], initial_capital=1e5*k, additional_data=dict(extras)); t.run(); return t.strategy.prices.values
    p1=go(1.0, base_flows)
    out=[]
    for k in (1e-2, 3.7, 1e3):
        pk=go(k, base_flows)
        d=np.max(np.abs(pk/p1-1)); out.append(d)
    res['scale']=max(out)
    # C: flow neutrality on flat days, zero cost, daily rebalance
    if cname=='none' and not bo:
        def go2(flows):
            st=[algos.run_always(FlowAlgo(flows)), algos.RunDaily(), algos.SelectAll(), algos.WeighEqually(), algos.Rebalance()]
            t=bt.Backtest(bt.Strategy('s',st), data, integer_positions=False, initial_capital=1e5); t.run(); return t.strategy.prices.values
        a=go2({}); b=go2({dts[d]:rng.uniform(-3e4,8e4) for d in flat_days})
        res['flow']=float(np.max(np.abs(a/b-1)))
    return res
mx=collections.defaultdict(float); n=collections.Counter()
for i in range(int(sys.argv[1])):
    try: r=run(i)
    except Exception as e: n['exc:'+str(e)[:50]]+=1; continue
    for k,v in r.items(): mx[k]=max(mx[k],v); n[k]+=1
print(dict(mx), dict(n))
