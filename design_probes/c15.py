import sys, random, collections, traceback
import numpy as np, pandas as pd, bt
from bt import algos
import warnings; warnings.filterwarnings('ignore')
def run(seed):
    rng=random.Random(seed); rs=np.random.RandomState(seed)
    nd=rng.randint(30,60); n=rng.randint(2,6); cols=['t%d'%i for i in range(n)]
    dts=pd.date_range('2020-01-01',periods=nd,freq='B')
    data=pd.DataFrame(100*np.exp(np.cumsum(rs.randn(nd,n)*rs.uniform(0.005,0.04,size=n),axis=0)),index=dts,columns=cols)
    s=bt.Strategy('s',[]); s.use_integer_positions(False); s.setup(data); s.update(dts[0]); s.adjust(1e6)
    i=rng.randint(20,nd-1)
    # build a current portfolio at some date
    for d in dts[:i+1]:
        s.update(d)
        if d==dts[5]:
            for c in rng.sample(cols, rng.randint(1,n)): s.rebalance(rng.uniform(0.05,0.3), c)
    now=dts[i]; s.update(now)
    which=rng.choice(['limitd','limitw','targetvol','invvol','pte','randomly','erc'])
    lb=pd.DateOffset(days=rng.choice([10,20])); lag=pd.DateOffset(days=rng.choice([0,1,3]))
    sel=rng.sample(cols, rng.randint(1,n))
    t0=now-lag; win=data.loc[(data.index>=t0-lb)&(data.index<=t0)]
    if which=='limitd':
        tw={c: float(x) for c,x in zip(sel, rs.dirichlet(np.ones(len(sel))))}
        lim = rng.choice([0.05,0.2]) if rng.random()<0.6 else {c: rng.choice([0.05,0.3]) for c in rng.sample(cols, rng.randint(1,n))}
        orig=dict(tw); s.temp={'weights':tw}
        cur={c:(s.children[c].weight if c in s.children else 0.0) for c in cols}
        algos.LimitDeltas(lim)(s); out=s.temp['weights']
        for c in set(cols):
            tgt0=orig.get(c,0.0); new=out.get(c, 0.0) if c in out else tgt0 if c in orig else 0.0
            l = lim if not isinstance(lim,dict) else lim.get(c)
            if l is None:
                if c in orig and out[c]!=orig[c]: return ('viol','limitd-touched'),None
                continue
            if c not in out and c not in s.children and c not in orig: continue
            d0=tgt0-cur[c]
            if abs(d0)<=l+1e-15:
                if c in orig and abs(out[c]-orig[c])>1e-15: return ('viol','limitd-changed-inside'),(c,out[c],orig[c])
            else:
                if c not in out: return ('viol','limitd-missing'),(c,)
                if abs(abs(out[c]-cur[c])-l)>1e-12: return ('viol','limitd'),(c,out[c],cur[c],l)
        return 'ok:limitd',None
    if which=='limitw':
        w=rs.dirichlet(np.ones(len(sel))); tw=dict(zip(sel,[float(x) for x in w])); lim=rng.choice([0.1,0.3,0.5,0.8])
        s.temp={'weights':dict(tw)}; algos.LimitWeights(lim)(s); out=s.temp['weights']
        if lim<1.0/len(sel): return ('ok:limitw-infeasible' if len(out)==0 else ('viol','limitw-infeasible')),None
        out=pd.Series(out)
        ok = out.max()<=lim+1e-12 and abs(out.sum()-1)<1e-9 and set(out.index)==set(sel)
        return ('ok:limitw' if ok else ('viol','limitw')),(tw,dict(out),lim)
    if which=='targetvol':
        w=rs.dirichlet(np.ones(len(sel))); s.temp={'weights':dict(zip(sel,[float(x) for x in w]))}; tv=rng.choice([0.05,0.1,0.2])
        algos.TargetVol(tv,lookback=lb,lag=lag)(s); out=pd.Series(s.temp['weights'])
        rets=(win[sel]/win[sel].shift(1)-1); cov=rets.cov()
        ww=out[list(cov.columns)].values
        vol=np.sqrt(ww@cov.values@ww*252)
        return ('ok:targetvol' if abs(vol-tv)<1e-9 else ('viol','targetvol')),(vol,tv)
    if which=='invvol':
        s.temp={'selected':list(sel)}; algos.WeighInvVol(lb,lag)(s); out=pd.Series(s.temp['weights'])
        if len(sel)==1: return ('ok:invvol1' if out[sel[0]]==1.0 else ('viol','invvol1')),None
        sd=(win[sel]/win[sel].shift(1)-1).dropna().std(ddof=1)
        prod=out*sd
        ok= abs(out.sum()-1)<1e-9 and (out>=0).all() and (prod.max()-prod.min())<1e-9*prod.max()
        return ('ok:invvol' if ok else ('viol','invvol')),None
    if which=='pte':
        tgt=pd.DataFrame(np.tile(rs.dirichlet(np.ones(n)),(nd,1)),index=dts,columns=cols); cap=rng.choice([0.005,0.02,0.05])
        r=algos.PTE_Rebalance(cap,tgt,lookback=lb,lag=lag)(s)
        if s.positions.shape==(0,0): return 'skip',None
        pos=s.positions.loc[now]; cw=pos*data.loc[now,pos.index]/s.value
        d=pd.Series(0.0,index=cols); 
        for c in cw.index: d[c]+=cw[c]
        d-=tgt.loc[now]
        order=list(cw.index)+[c for c in cols if c not in cw.index]
        rets=(win[order]/win[order].shift(1)-1); cov=rets.cov()
        v=np.sqrt(d[order].values@cov.values@d[order].values*252)
        return ('ok:pte' if r==(v>cap) else ('viol','pte')),(r,v,cap)
    if which=='randomly':
        lo=rng.choice([0.0,0.05]); hi=rng.choice([0.3,0.6,1.0]); tot=rng.choice([1,0.5])
        s.temp={'selected':list(sel)}; random.seed(seed); algos.WeighRandomly((lo,hi),tot)(s); out=s.temp['weights']
        feas = len(sel)*hi>=tot and len(sel)*lo<=tot
        if not feas: return ('ok:randomly-infeasible' if out=={} else ('viol','randomly-infeasible')),None
        o=pd.Series(out); ok=abs(o.sum()-tot)<1e-9 and (o>=lo-1e-12).all() and (o<=hi+1e-12).all() and set(o.index)==set(sel)
        return ('ok:randomly' if ok else ('viol','randomly')),(out,lo,hi,tot)
    if which=='erc':
        if len(sel)<2: return 'skip',None
        s.temp={'selected':list(sel)}
        try: algos.WeighERC(lookback=pd.DateOffset(days=40),lag=lag)(s)
        except ValueError as e: return 'skip-solver',None
        out=pd.Series(s.temp['weights'])
        import sklearn.covariance
        win2=data.loc[(data.index>=t0-pd.DateOffset(days=40))&(data.index<=t0)]
        rets=(win2[sel]/win2[sel].shift(1)-1).dropna()
        cov=sklearn.covariance.ledoit_wolf(rets)[0]
        w=out[sel].values; rc=w*(cov@w)
        ok=abs(w.sum()-1)<1e-9 and (w>=0).all() and (rc.max()-rc.min())/rc.mean()<1e-3
        return ('ok:erc' if ok else ('viol','erc')),((rc.max()-rc.min())/rc.mean(),)
cnt=collections.Counter(); ex={}
for i in range(int(sys.argv[1])):
    try: r,info=run(i)
    except Exception as e: r='HARNESS'; info=traceback.format_exc()[-500:]
    cnt[r]+=1
    if not str(r).startswith('ok') and not str(r).startswith('skip'): ex.setdefault(r,[]).append((i,info))
for k,v in sorted(cnt.items(), key=lambda kv:-kv[1]):
    print(v,k)
    for e in ex.get(k,[])[:2]: print('    ',str(e)[:500])
