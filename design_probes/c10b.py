import numpy as np, pandas as pd, bt, traceback
from bt import algos
from bt.core import *
import warnings; warnings.filterwarnings('ignore')
dts=pd.date_range('2020-01-01',periods=6,freq='B')
def data(): return pd.DataFrame({'a':[100.,101,102,103,104,105],'b':[50.,51,52,53,54,55]},index=dts)
def attempt(name, fn):
    try: fn(); print(name,'-> NO EXCEPTION')
    except Exception as e: print(name,'->',type(e).__name__, str(e)[:90])
def c1():
    d=data(); d.loc[dts[2],'a']=np.nan
    s=bt.Strategy('s',[algos.RunOnDate(dts[2]),algos.SelectAll(include_no_data=True),algos.WeighEqually(),algos.Rebalance()]); bt.Backtest(s,d).run()
def c2():
    d=data(); d.loc[dts[2],'a']=0.0
    s=bt.Strategy('s',[algos.RunOnDate(dts[2]),algos.SelectAll(include_negative=True),algos.WeighEqually(),algos.Rebalance()]); bt.Backtest(s,d).run()
def c3():
    d=data(); d.loc[dts[3],'a']=np.nan
    s=bt.Strategy('s',[algos.RunOnce(),algos.SelectAll(),algos.WeighEqually(),algos.Rebalance()]); bt.Backtest(s,d).run()
def c4():
    d=data(); cp=pd.DataFrame(0.01,index=dts,columns=['a','b']); cp.loc[dts[3],'a']=np.nan
    s=bt.FixedIncomeStrategy('s',[algos.RunOnce(),algos.SelectAll(),algos.WeighEqually(),algos.SetNotional('nv'),algos.Rebalance()],children=[CouponPayingSecurity('a'),CouponPayingSecurity('b')])
    bt.Backtest(s,d,additional_data={'coupons':cp,'nv':pd.Series(1e5,index=dts)}).run()
def c5():
    d=data(); d2=pd.concat([d,d[['a']]],axis=1); bt.Backtest(bt.Strategy('s',[]),d2)
def c6():
    s=bt.Strategy('s',[algos.RunOnce(),algos.SelectAll(),algos.WeighEqually(),algos.Rebalance()]); t=bt.Backtest(s,data(),initial_capital=0.0)
    t.run()
def c6b():
    s=StrategyBase('s',children=['a']); s.setup(data()); s.update(dts[0]); s.transact(10,'a'); s.update(dts[1])
def c7():
    ch=bt.FixedIncomeStrategy('fi',[]); s=bt.Strategy('s',[],children=[ch]); bt.Backtest(s,data()).run()
def c8():
    s=StrategyBase('s',children=['a']); s.setup(data()); s.update(dts[0]); s.adjust(1e4); s.update(dts[0]); s['a'] if 'a' in s.children else s._create_child_if_needed('a'); s['a'].transact(5, price=99.0)
for n,f in [('1 alloc NaN',c1),('2 alloc zero',c2),('3 NaN on open pos',c3),('4 NaN coupon open',c4),('5 dup cols',c5),('6 zero base (capital 0, trade?)',c6),('6b zero base direct',c6b),('7 FI under MV',c7),('8 custom price no bidoffer',c8)]: attempt(n,f)
