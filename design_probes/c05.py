import sys, math, random, itertools, collections
import numpy as np, pandas as pd
import bt
from bt.core import Security, StrategyBase
print(bt.core.__file__)

def mk(price, mult, pos0, integer, spread, comm):
    dts = pd.date_range('2020-01-01', periods=2)
    data = pd.DataFrame({'a':[price, price]}, index=dts)
    kw = {}
    if spread is not None:
        kw['bidoffer'] = pd.DataFrame({'a':[spread, spread]}, index=dts)
    sec = Security('a', multiplier=mult)
    s = StrategyBase('s', children=[sec])
    sec = s['a']
    s.use_integer_positions(integer)
    if comm is not None: s.set_commissions(comm)
    s.setup(data, **kw)
    s.update(dts[0])
    s.adjust(1e7)
    s.update(dts[0])
    if pos0 != 0:
        sec.transact(pos0)
        s.update(dts[0])
    return s, sec

def cost(q, p, m, spread, comm):
    sp = 0 if spread is None else abs(q)*0.5*spread*m
    f = 0 if comm is None else comm(q, p*m)
    return q*p*m + sp + f

comms = {
 'none': None,
 'prop10bp': lambda q,p: abs(q)*p*0.001,
 'fixed1': lambda q,p: 1.0 if q != 0 else 0.0,
 'max1': lambda q,p: max(1.0, abs(q)*0.01),
 'fix+prop': lambda q,p: (2.0 + abs(q)*p*0.0005) if q!=0 else 0.0,
}
rng = random.Random(1)
stats = collections.Counter()
examples = collections.defaultdict(list)
N = int(sys.argv[1]) if len(sys.argv)>1 else 20000
for it in range(N):
    price = rng.choice([100.0, 10.0, 37.5, 1.23, round(rng.uniform(0.5, 500),2)])
    mult = rng.choice([1,1,1,10,0.5])
    integer = rng.random()<0.7
    pos0 = rng.choice([0,0,3,-3,10,-10,rng.randint(-50,50)]) if integer else rng.choice([0,2.5,-2.5,rng.uniform(-50,50)])
    spread = rng.choice([None,None,0.0,0.02*price, 0.1])
    cname = rng.choice(list(comms))
    comm = comms[cname]
    unit = price*mult
    kind = rng.random()
    if kind<0.1: a = -pos0*price*mult
    elif kind<0.2: a = rng.choice([1,-1])*rng.uniform(0, unit)   # sub unit
    elif kind<0.3: a = rng.choice([1,-1])*unit*rng.randint(1,20)  # exact multiples
    else: a = rng.uniform(-30,30)*unit
    s, sec = mk(price, mult, pos0, integer, spread, comm)
    cap0 = s.capital; v0 = sec.value
    try:
        sec.allocate(a)
    except Exception as e:
        key = ('RAISE', str(e)[:40], integer, np.sign(pos0), np.sign(a), cname)
        stats[key]+=1
        if len(examples[key])<3: examples[key].append(dict(price=price,mult=mult,pos0=pos0,a=a,spread=spread,comm=cname))
        continue
    q = sec.position - pos0
    dcash = s.capital - cap0
    c = cost(q, price, mult, spread, comm) if q!=0 else 0.0
    tol = 1e-6
    viol = []
    if abs(dcash + c) > 1e-6: viol.append('cash!=cost')
    closeout = abs(a + v0) < 1e-9 and pos0!=0
    if closeout:
        if abs(sec.position) > 1e-12: viol.append('closeout_not_closed')
    else:
        if c > a + tol: viol.append('overspend' if a>0 else 'underraise')
        if integer:
            if q != int(q): viol.append('nonint')
            c1 = cost(q+1, price, mult, spread, comm)
            if c1 <= a - tol and not (q+1 == 0 and False): viol.append('notmax')
        else:
            if abs(c - a) > 1e-6 and q!=0: viol.append('frac_cost!=amount')
            if q == 0 and abs(a)>1e-9: viol.append('frac_notrade')
    for v in viol:
        key = (v, integer, int(np.sign(pos0)), int(np.sign(a)), cname if v in('cash!=cost',) else '', 'q=-pos' if (pos0!=0 and q==-pos0) else ('q=0' if q==0 else ''))
        stats[key]+=1
        if len(examples[key])<3: examples[key].append(dict(price=price,mult=mult,pos0=pos0,a=a,spread=spread,comm=cname,q=q,cost=c))
    if not viol: stats['ok']+=1
for k,v in sorted(stats.items(), key=lambda kv:-kv[1]):
    print(v, k)
    for e in examples.get(k,[])[:2]: print('     ', e)
