import sys, random, collections, traceback, io, contextlib, copy, pickle
import numpy as np, pandas as pd, bt
from bt import algos
from bt.core import StrategyBase, SecurityBase
from w2 import gen_stack, gen_data, COMMS
import warnings; warnings.filterwarnings('ignore')
def run(seed):
    rng=random.Random(seed); rs=np.random.RandomState(seed)
    nd=rng.randint(25,50); tickers=['t%d'%i for i in range(rng.randint(2,5))]
    data=gen_data(rng,rs,nd,tickers,late=rng.random()<0.4)
    extras={}
    st,d=gen_stack(rng,rs,data,tickers,extras,allow_flow=False)
    integer=rng.random()<0.5
    bo=rng.random()<0.5
    if bo: extras['bidoffer']=pd.DataFrame(rs.uniform(0,0.3,size=data.shape),index=data.index,columns=data.columns)
    tpl=bt.Strategy('orig',st)
    # C11 integrity digests
    def frames_digest():
        return [ (k, v.to_numpy().tobytes(), tuple(v.index), tuple(getattr(v,'columns',[]))) for k,v in [('data',data)]+sorted(extras.items()) if hasattr(v,'to_numpy')]
    fd0=frames_digest()
    try: tp0=pickle.dumps(tpl)
    except Exception as e: tp0=None
    random.seed(seed); np.random.seed(seed)
    t=bt.Backtest(tpl,data,integer_positions=integer,additional_data=dict(extras))
    try:
        with contextlib.redirect_stderr(io.StringIO()): res=bt.run(t)
    except Exception as e: return 'exc',None
    if frames_digest()!=fd0: return 'INPUT-MUTATED',None
    if tp0 is not None and pickle.dumps(tpl)!=tp0: return 'TEMPLATE-MUTATED',d
    if t.strategy.bankrupt: return 'bankrupt',None
    try: tx=res.get_transactions()
    except IndexError: return 'notrades',None
    if len(tx)==0: return 'notrades',None
    ex2={'tx':tx, 'bidoffer':pd.DataFrame(0.0,index=data.index,columns=data.columns)}
    rp=bt.Strategy('replay',[algos.ReplayTransactions('tx')],children=[bt.Security(c.name) for c in t.strategy.children.values()])
    t2=bt.Backtest(rp,data,integer_positions=False,additional_data=ex2)
    try: t2.run()
    except Exception as e: return ('replay-exc',str(e)[:60]),d
    p1=t.strategy.positions; p2=t2.strategy.positions
    for c in p1.columns:
        if c not in p2.columns or not np.allclose(p1[c].values,p2[c].reindex(p1.index).fillna(0).values,atol=1e-9): return 'REPLAY-POS',(d,c)
    v1=t.strategy.values; v2=t2.strategy.values
    if not np.allclose(v1.values,v2.values,rtol=1e-9,atol=1e-6): return 'REPLAY-VAL',(d,float(np.abs(v1.values-v2.values).max()),bo,integer)
    return 'ok' if tp0 is not None else 'ok-nopickle',None
cnt=collections.Counter(); ex={}
for i in range(int(sys.argv[1])):
    try: r,info=run(i)
    except Exception as e: r='HARNESS'; info=traceback.format_exc()[-500:]
    cnt[r]+=1
    if r not in('ok','exc','bankrupt','notrades','ok-nopickle'): ex.setdefault(r,[]).append((i,info))
for k,v in cnt.most_common():
    print(v,k)
    for e in ex.get(k,[])[:3]: print('    ',str(e)[:500])
