import sys, math, random, collections, traceback, copy
import numpy as np, pandas as pd
import bt
from bt import algos
from bt.core import Security, StrategyBase, SecurityBase, Strategy
import warnings; warnings.filterwarnings('ignore')

COMMS = {
 'none': None,
 'prop': lambda q,p: abs(q)*p*0.001,
 'fixprop': lambda q,p: (1.0 + abs(q)*p*0.0005) if q!=0 else 0.0,
 'max1': lambda q,p: max(1.0, abs(q)*0.01),
}

def gen_data(rng, rs, nd, tickers, freq='B', late=True):
    dts = pd.date_range('2019-11-15', periods=nd, freq=freq)
    prices = 100*np.exp(np.cumsum(rs.randn(nd,len(tickers))*0.02,axis=0)) * rs.choice([1,0.2,5], size=len(tickers))
    data = pd.DataFrame(prices, index=dts, columns=tickers)
    if late:
        for tk in tickers:
            if rng.random()<0.25:
                k = rng.randint(1, nd//2); data.loc[dts[:k], tk] = np.nan
    return data

def gen_stack(rng, rs, data, tickers, extras, children_names=None, allow_flow=True):
    """returns list of algos"""
    dts = data.index
    st=[]
    desc=[]
    r = rng.random()
    sch = rng.choice(['daily','weekly','monthly','monthly_eop','quarterly','once','ondate','afterdate','afterdays','everyn','or'])
    def mk_sched(sch):
        if sch=='daily': return algos.RunDaily()
        if sch=='weekly': return algos.RunWeekly(run_on_first_date=rng.random()<0.7)
        if sch=='monthly': return algos.RunMonthly(run_on_first_date=rng.random()<0.7, run_on_last_date=rng.random()<0.3)
        if sch=='monthly_eop': return algos.RunMonthly(run_on_end_of_period=True)
        if sch=='quarterly': return algos.RunQuarterly()
        if sch=='once': return algos.RunOnce()
        if sch=='ondate': return algos.RunOnDate(*[dts[i] for i in sorted(rng.sample(range(len(dts)), min(4,len(dts))))])
        if sch=='afterdate': return algos.RunAfterDate(dts[rng.randint(0,len(dts)//2)])
        if sch=='afterdays': return algos.RunAfterDays(rng.randint(0,10))
        if sch=='everyn': 
            n=rng.randint(1,7); return algos.RunEveryNPeriods(n, offset=rng.randint(0,n-1))
        if sch=='or': return algos.Or([mk_sched(rng.choice(['monthly','ondate','everyn'])), mk_sched(rng.choice(['weekly','ondate']))])
    st.append(mk_sched(sch)); desc.append(sch)
    if allow_flow and rng.random()<0.3:
        st.insert(0, algos.run_always(algos.CapitalFlow(rng.uniform(-2e4, 5e4)))); desc.insert(0,'flow_always')
    elif allow_flow and rng.random()<0.2:
        st.append(algos.CapitalFlow(rng.uniform(-2e4, 5e4))); desc.append('flow')
    names = children_names or tickers
    full = [n for n in names if n in data.columns and data[n].notna().all()] or names
    sel = rng.choice(['all','these','hasdata','momentum','where','randomly','setstat_n'])
    lb = pd.DateOffset(days=rng.choice([5,10,20,30]))
    lag = pd.DateOffset(days=rng.choice([0,0,1,3]))
    if sel=='all': st.append(algos.SelectAll())
    elif sel=='these': st.append(algos.SelectThese(rng.sample(names, rng.randint(1,len(names)))))
    elif sel=='hasdata': st.append(algos.SelectHasData(lookback=lb, min_count=rng.randint(1,5)))
    elif sel=='momentum': st += [algos.SelectAll(), algos.SelectMomentum(rng.randint(1,len(names)), lookback=lb, lag=lag)]
    elif sel=='where':
        sig = pd.DataFrame(rs.rand(len(dts),len(names))>0.4, index=dts, columns=names); extras['sig']=sig
        st.append(algos.SelectWhere('sig'))
    elif sel=='randomly': st += [algos.SelectAll(), algos.SelectRandomly(rng.randint(1,len(names)))]
    elif sel=='setstat_n':
        stat = pd.DataFrame(rs.randn(len(dts),len(names)), index=dts, columns=names); extras['stat']=stat
        st += [algos.SelectAll(), algos.SetStat('stat', lag=lag), algos.SelectN(rng.choice([1,2,0.5]), sort_descending=rng.random()<0.5, filter_selected=True)]
    desc.append(sel)
    w = rng.choice(['equal','equal','specified','target','invvol','randomly'])
    if w=='equal': st.append(algos.WeighEqually())
    elif w=='specified':
        ks = rng.sample(full, rng.randint(1,len(full))); ws = rs.dirichlet(np.ones(len(ks)))*rng.uniform(0.5,1.0)
        if rng.random()<0.3: ws[0] = -ws[0]
        st.append(algos.WeighSpecified(**dict(zip(ks, [float(x) for x in ws]))))
    elif w=='target':
        tw = pd.DataFrame(rs.dirichlet(np.ones(len(full)), size=len(dts)), index=dts, columns=full)
        tw = tw.iloc[::rng.randint(1,5)]; extras['tw']=tw
        # WeighTarget ignores selection; replace selection to avoid untradable: mask NaN prices
        extras['tw']=tw
        st.append(algos.WeighTarget('tw'))
    elif w=='invvol': st.append(algos.WeighInvVol(lookback=lb, lag=lag))
    elif w=='erc': st.append(algos.WeighERC(lookback=pd.DateOffset(days=30), lag=lag))
    elif w=='randomly': st.append(algos.WeighRandomly())
    desc.append(w)
    if w in ('equal','randomly') and rng.random()<0.25: st.append(algos.LimitWeights(rng.choice([0.3,0.5,0.8]))); desc.append('limitw')
    if rng.random()<0.2: st.append(algos.LimitDeltas(rng.choice([0.05,0.2]))); desc.append('limitd')
    if rng.random()<0.15: st.append(algos.ScaleWeights(rng.choice([0.5,0.9,-0.5,1.3]))); desc.append('scale')
    if rng.random()<0.8: st.append(algos.Rebalance()); desc.append('rebalance')
    else: st.append(algos.RebalanceOverTime(rng.randint(2,5))); desc.append('rot')
    return st, desc

def gen_backtest(seed):
    rng = random.Random(seed); rs = np.random.RandomState(seed)
    nd = rng.randint(25,70)
    tickers = ['t%d'%i for i in range(rng.randint(2,6))]
    data = gen_data(rng, rs, nd, tickers, late=rng.random()<0.5)
    extras={}
    nested = rng.random()<0.35
    desc={}
    if not nested:
        st, d = gen_stack(rng, rs, data, tickers, extras)
        kids = rng.choice([None, tickers, [Security(t, multiplier=rng.choice([1,1,10])) for t in tickers]])
        strat = bt.Strategy('root', st, children=kids)
        desc['root']=d; desc['kids']='none' if kids is None else ('str' if isinstance(kids[0],str) else 'sec')
    else:
        subs=[]
        for i in range(rng.randint(1,3)):
            tks = rng.sample(tickers, rng.randint(1,len(tickers)))
            ex2={}
            st, d = gen_stack(rng, rs, data[tks], tks, ex2, allow_flow=False)
            # gate child by calendar
            for k,v in ex2.items(): extras['c%d_%s'%(i,k)] = v
            # rename data keys inside algos
            for a in st:
                for attr in ('signal_name','stat_name','weights_name'):
                    if getattr(a,attr,None) in ex2: setattr(a, attr, 'c%d_%s'%(i,getattr(a,attr)))
                if isinstance(a, bt.core.AlgoStack):
                    for b in a.algos:
                        for attr in ('signal_name','stat_name','weights_name'):
                            if getattr(b,attr,None) in ex2: setattr(b, attr, 'c%d_%s'%(i,getattr(b,attr)))
            if not isinstance(st[0], algos.RunPeriod): st.insert(0, algos.RunDaily())
            subs.append(bt.Strategy('sub%d'%i, st, children=tks)); desc['sub%d'%i]=d
        names = ['sub%d'%i for i in range(len(subs))]
        extra_tk = rng.sample(tickers, rng.randint(0,2))
        allnames = names+extra_tk
        ws = rs.dirichlet(np.ones(len(allnames)))*rng.uniform(0.6,1.0)
        st = [rng.choice([algos.RunMonthly(), algos.RunWeekly(), algos.RunOnce(), algos.RunDaily()]), algos.SelectThese(allnames), algos.WeighSpecified(**dict(zip(allnames,[float(x) for x in ws]))), algos.Rebalance()]
        strat = bt.Strategy('root', st, children=subs+extra_tk); desc['root']=('nested', allnames)
    integer = rng.random()<0.5
    cname = rng.choice(list(COMMS))
    kw={}
    if rng.random()<0.3:
        extras['bidoffer'] = pd.DataFrame(rs.uniform(0,0.3,size=data.shape), index=data.index, columns=data.columns)
    desc.update(integer=integer, comm=cname, bidoffer='bidoffer' in extras, nd=nd, ntk=len(tickers))
    cap = rng.choice([1e6, 1e5, 1e4, 3.3e6])
    def make():
        return bt.Backtest(strat, data, integer_positions=integer, commissions=COMMS[cname], initial_capital=cap, additional_data=dict(extras))
    return make, desc, data, extras

if __name__=='__main__':
    N=int(sys.argv[1]); base=int(sys.argv[2]) if len(sys.argv)>2 else 0
    cnt=collections.Counter(); ex={}
    for i in range(N):
        seed=base+i
        make, desc, data, extras = gen_backtest(seed)
        random.seed(seed); np.random.seed(seed)
        t = make()
        try:
            t.run(); cnt['ok']+=1
        except Exception as e:
            key=(type(e).__name__, str(e)[:70]); cnt[key]+=1; ex.setdefault(key,(seed,desc,traceback.format_exc()[-700:]))
    for k,v in cnt.most_common():
        print(v,k)
        if k in ex: print('   ',ex[k][0], ex[k][1]); print('   ', ex[k][2].replace('\n','\n      '))
