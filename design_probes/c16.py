import sys, math, random, collections, traceback, copy
import numpy as np, pandas as pd
import bt
from bt import algos
from bt.core import StrategyBase, SecurityBase
import warnings; warnings.filterwarnings('ignore')
COMMS = {'none': None,'prop': lambda q,p: abs(q)*p*0.001,'fixprop': lambda q,p: (1.0 + abs(q)*p*0.0005) if q!=0 else 0.0}
def run(seed):
    rng=random.Random(seed); rs=np.random.RandomState(seed)
    nd=rng.randint(15,40); tickers=['t%d'%i for i in range(rng.randint(2,4))]
    dts=pd.date_range('2020-01-01',periods=nd,freq='B')
    rets = rs.randn(nd,len(tickers))*0.03
    # jumps
    for k in range(rng.randint(0,3)):
        rets[rng.randint(2,nd-1), rng.randint(0,len(tickers)-1)] += rng.choice([-1,1])*rng.uniform(0.3,1.2)
    data=pd.DataFrame(100*np.exp(np.cumsum(rets,axis=0)),index=dts,columns=tickers)
    calls=[]
    class Spy(bt.Algo):
        def __init__(s,tag): s.tag=tag; super().__init__()
        def __call__(s,t): calls.append((s.tag, id(t.root), t.now)); return True
    def lev_weights(names):
        ws = rs.dirichlet(np.ones(len(names)))*rng.uniform(1.0,4.0)
        ws = ws*rs.choice([1,-1],size=len(names),p=[0.6,0.4])
        return dict(zip(names,[float(x) for x in ws]))
    nested=rng.random()<0.5
    sched = lambda: rng.choice([algos.RunOnce, algos.RunWeekly, algos.RunDaily])()
    if nested:
        subs=[]
        for i in range(rng.randint(1,2)):
            tks=rng.sample(tickers, rng.randint(1,len(tickers)))
            subs.append(bt.Strategy('sub%d'%i,[Spy('sub%d'%i), algos.RunWeekly(), algos.SelectThese(tks), algos.WeighSpecified(**lev_weights(tks)), algos.Rebalance()], children=tks))
        names=[s.name for s in subs]+rng.sample(tickers, rng.randint(0,1))
        ws = dict(zip(names,[float(x) for x in rs.dirichlet(np.ones(len(names)))*rng.uniform(0.8,1.0)]))
        root=bt.Strategy('root',[Spy('root'), sched(), algos.SelectThese(names), algos.WeighSpecified(**ws), algos.Rebalance()], children=subs+[n for n in names if n in tickers])
    else:
        root=bt.Strategy('root',[Spy('root'), sched(), algos.SelectAll(), algos.WeighSpecified(**lev_weights(tickers)), algos.Rebalance()])
    integer=rng.random()<0.5; cname=rng.choice(list(COMMS))
    t=bt.Backtest(root,data,integer_positions=integer,commissions=COMMS[cname])
    try: t.run()
    except Exception as e: return ('exc', str(e)[:50]), None
    s=t.strategy; V=s.values; errs=[]
    neg = V[V<0]
    subs_b = [m.full_name for m in s.members if isinstance(m,StrategyBase) and m is not s and m.bankrupt]
    if subs_b: errs.append(('sub-flagged',subs_b))
    if not s.bankrupt:
        if len(neg): errs.append(('neg-not-flagged', str(neg.index[0]), neg.iloc[0]))
        return ('ok-solvent' if not errs else ('viol',errs[0][0])), (errs, nested, integer, cname)
    if not len(neg): errs.append(('flagged-no-neg',))
    else:
        tb=neg.index[0]; i=V.index.get_loc(tb)
        after = V.index[i+1:]
        # positions zero after
        for m in s.members:
            if isinstance(m,SecurityBase):
                p = m.positions.reindex(V.index).fillna(0.0)
                if (p.loc[after].abs()>1e-9).any(): errs.append(('residual-pos', m.full_name, float(p.loc[after].abs().max()), nested, integer)); break
        if len(after)>1:
            if (V.loc[after]-V.loc[after[0]]).abs().max()>1e-6: errs.append(('value-not-const', float((V.loc[after]-V.loc[after[0]]).abs().max()), nested, integer))
            c=s.cash.loc[after]
            if (c-c.iloc[0]).abs().max()>1e-6: errs.append(('cash-not-const',))
        late=[c for c in calls if c[1]==id(s) and c[2]>tb]
        if late: errs.append(('algos-after', late[:2]))
        same=[c for c in calls if c[1]==id(s) and c[2]==tb]
    return ('ok-bankrupt' if not errs else ('viol',errs[0][0], nested, integer)), (errs[:3], cname)
if __name__=='__main__':
    N=int(sys.argv[1]); cnt=collections.Counter(); ex={}
    for i in range(N):
        try: r,info=run(i)
        except Exception as e: r='HARNESS'; info=traceback.format_exc()[-500:]
        cnt[r]+=1
        if r not in('ok-solvent','ok-bankrupt'): ex.setdefault(r,[]).append((i,info))
    for k,v in cnt.most_common():
        print(v,k)
        for e in ex.get(k,[])[:2]: print('    ',str(e)[:500])
