import numpy as np, pandas as pd, bt, traceback, random, sys, os
from bt import algos
print(bt.core.__file__)
rs = np.random.RandomState(3)
dts = pd.date_range('2020-01-01', periods=40, freq='B')
data = pd.DataFrame(100*np.exp(np.cumsum(rs.randn(40,4)*0.02,axis=0)), index=dts, columns=list('abcd'))
print("== C16 nested bankruptcy flatten")
data2 = data.copy(); data2.iloc[20:, 0] = data2.iloc[20:,0]*3.0   # a triples -> short a dies
calls=[]
class Spy(bt.Algo):
    def __call__(s,t): calls.append((t.name,t.now)); return True
ch = bt.Strategy('ch',[Spy(), algos.RunOnDate(dts[0]), algos.SelectThese(['a','b']), algos.WeighSpecified(a=-3.0,b=0.5), algos.Rebalance()], children=['a','b'])
parent = bt.Strategy('p',[Spy(), algos.RunOnDate(dts[0]), algos.SelectThese(['ch','c']), algos.WeighSpecified(ch=0.9,c=0.1), algos.Rebalance()], children=[ch,'c'])
t = bt.Backtest(parent, data2, integer_positions=True); t.run()
s = t.strategy
print('bankrupt', s.bankrupt, 'child bankrupt', s['ch'].bankrupt)
print(s.values.iloc[18:26].round(2).tolist())
print('positions after', {m.full_name: m.position for m in s.members if hasattr(m,'position')})
print('pos rows\n', s.positions.iloc[18:24])
print('cash', s.cash.iloc[18:26].round(2).tolist(), 'child cash', s['ch'].cash.iloc[18:26].round(2).tolist(), 'child value', s['ch'].values.iloc[18:26].round(2).tolist())
print('last spy calls', [c for c in calls if c[0]=='p'][-1], [c for c in calls if c[0]=='ch'][-1], 'bankrupt date idx20=', dts[20])
print("flat version")
flat = bt.Strategy('f',[algos.RunOnce(), algos.SelectThese(['a','b']), algos.WeighSpecified(a=-3.0,b=0.5), algos.Rebalance()])
t = bt.Backtest(flat, data2, integer_positions=True, commissions=lambda q,p: abs(q)*p*0.001); t.run(); s=t.strategy
print('bankrupt', s.bankrupt, s.values.iloc[18:26].round(2).tolist()); print({m.full_name: m.position for m in s.members if hasattr(m,'position')})
print(s.positions.iloc[19:23]); print(s.cash.iloc[19:24].tolist()); print('fees', s.fees.iloc[19:24].tolist())
