import sys, math, random, collections, traceback, copy
import numpy as np, pandas as pd
import bt
from bt.core import StrategyBase, SecurityBase
import w2
from w2 import gen_backtest, COMMS
import warnings; warnings.filterwarnings('ignore')
def run(seed):
    make, desc, data, extras = gen_backtest(seed)
    if 'sub0' not in desc: return 'flat', None
    if any(('randomly' in d) for k,d in desc.items() if k.startswith('sub')): return 'random-skip', None
    random.seed(seed); np.random.seed(seed)
    t1 = make()
    # templates of subs: take from unrun copy
    templates = {n: copy.deepcopy(c) for n,c in t1.strategy.children.items() if isinstance(c, StrategyBase)}
    try: t1.run()
    except Exception as e: return 'exc1', None
    out='ok'
    for n,tpl in templates.items():
        tpl = copy.deepcopy(tpl); tpl.parent = tpl; tpl.root = tpl  # detach
        t2 = bt.Backtest(tpl, data, integer_positions=desc['integer'], commissions=COMMS[desc['comm']], additional_data=dict(extras))
        try: t2.run()
        except Exception as e: return 'exc2', (desc, str(e)[:100])
        a = t1.strategy[n].prices; b = t2.strategy.prices
        if len(a)!=len(b) or not np.array_equal(a.values, b.values):
            return 'DIFF', (desc, n, float(np.abs(a.values-b.values).max()), desc[n])
        u = t1.strategy.universe[n]
        if not np.array_equal(u.values, a.values, equal_nan=True): return 'UNIV', (desc, n)
    return out, None
if __name__=='__main__':
    N=int(sys.argv[1]); base=int(sys.argv[2]) if len(sys.argv)>2 else 0
    cnt=collections.Counter(); ex={}
    for i in range(N):
        try: r, info = run(base+i)
        except Exception as e: r='HARNESS'; info=traceback.format_exc()[-600:]
        cnt[r]+=1
        if r not in ('ok','flat','random-skip','exc1'): ex.setdefault(r,[]).append((base+i,info))
    for k,v in cnt.most_common():
        print(v,k)
        for e in ex.get(k,[])[:8]: print('    ', str(e)[:700])
