import sys, math, random, collections, traceback, copy
import numpy as np, pandas as pd
import bt
from bt import algos
from bt.core import *
import warnings; warnings.filterwarnings('ignore')
TYPES={'sec':Security,'fi':FixedIncomeSecurity,'cp':CouponPayingSecurity,'hedge':HedgeSecurity,'cphedge':CouponPayingHedgeSecurity}
def exp_notional(m):
    if isinstance(m,(HedgeSecurity,CouponPayingHedgeSecurity)): return 0.0
    if isinstance(m,FixedIncomeSecurity): return m.position
    return m.value
def run(seed):
    rng=random.Random(seed); rs=np.random.RandomState(seed)
    n=rng.randint(2,6); names=['b%d'%i for i in range(n)]; kinds=[rng.choice(list(TYPES)) for _ in names]
    nd=rng.randint(4,10); dts=pd.date_range('2020-01-01',periods=nd,freq='B')
    data=pd.DataFrame(100*np.exp(np.cumsum(rs.randn(nd,n)*0.01,axis=0)),index=dts,columns=names)
    coupons=pd.DataFrame(rs.choice([0,0,0.01,0.5],size=(nd,n))*rs.rand(nd,n),index=dts,columns=names)
    cl=pd.DataFrame(rs.rand(nd,n)*0.01,index=dts,columns=names); cs=pd.DataFrame(rs.rand(nd,n)*0.02,index=dts,columns=names)
    kids=[TYPES[k](nm, multiplier=rng.choice([1,1,2])) if k not in('cp','cphedge') else TYPES[k](nm, multiplier=rng.choice([1,1,2])) for nm,k in zip(names,kinds)]
    root=FixedIncomeStrategy('fi',children=kids)
    integer=rng.random()<0.3; root.use_integer_positions(integer)
    kw=dict(coupons=coupons)
    if rng.random()<0.7: kw['cost_long']=cl
    if rng.random()<0.7: kw['cost_short']=cs
    bo=rng.random()<0.3
    if bo: kw['bidoffer']=pd.DataFrame(rs.uniform(0,0.2,size=(nd,n)),index=dts,columns=names)
    comm = rng.choice([None, lambda q,p: abs(q)*p*0.0002])
    if comm: root.set_commissions(comm)
    root.setup(data,**kw)
    errs=[]
    prev=None
    flows_today=0.0
    for di,dt in enumerate(dts):
        cap_before=root.capital
        try: root.update(dt)
        except ZeroDivisionError: return 'zerodiv',None
        # coupon sweep check
        if prev is not None:
            exp_sweep = sum(prev['accr'].values())
            if abs((root.capital-cap_before)-exp_sweep)>1e-8*(1+abs(exp_sweep)): errs.append(('sweep',str(dt),root.capital-cap_before,exp_sweep)); break
        flows_today=0.0
        for k in range(rng.randint(1,4)):
            op=rng.choice(['rebalance','transact','close','adjust','update']) if root.notional_value>0 else rng.choice(['rebalance','transact'])
            c=rng.choice(names)
            try:
                if op=='rebalance': root.rebalance(rng.uniform(-0.5,1.0), c, base=rng.choice([np.nan, rng.uniform(1e4,1e6)]) if root.notional_value>0 else rng.uniform(1e4,1e6))
                elif op=='transact': root.transact(rng.uniform(-1e4,2e4), c)
                elif op=='close': root.close(c)
                elif op=='adjust':
                    a=rng.uniform(-1e4,1e4); fl=rng.random()<0.5; root.adjust(a,flow=fl)
                    if fl: flows_today+=a
                else: root.update(dt)
                # invariants
                N=root.notional_value
                tot=0.0
                for m in root.children.values():
                    en=exp_notional(m)
                    if abs(m.notional_value-en)>1e-9*(1+abs(en)): errs.append(('notional',type(m).__name__,m.notional_value,en)); break
                    tot+=abs(en)
                if abs(N-tot)>1e-9*(1+tot): errs.append(('stratnotional',N,tot))
                for m in root.children.values():
                    ew = exp_notional(m)/N if abs(N)>1e-16 else 0.0
                    if abs(m.weight-ew)>1e-9*(1+abs(ew)): errs.append(('weight',type(m).__name__,m.weight,ew)); break
            except ZeroDivisionError: return 'zerodiv',None
            except Exception as e:
                return ('EXC',type(e).__name__,str(e)[:50],op),None
            if errs: break
        if errs: break
        try: root.update(dt)
        except ZeroDivisionError: return 'zerodiv',None
        accr={}
        for m in root.children.values():
            if isinstance(m,CouponPayingSecurity):
                pos=m.position; cpn=pos*coupons.loc[dt,m.name]
                cost=0.0
                if pos>0 and 'cost_long' in kw: cost=pos*cl.loc[dt,m.name]
                if pos<0 and 'cost_short' in kw: cost=-pos*cs.loc[dt,m.name]
                if abs(m.coupons.get(dt,0.0)-cpn)>1e-9*(1+abs(cpn)): errs.append(('coupon',m.coupons.get(dt,0.0),cpn))
                if abs(m.holding_costs.get(dt,0.0)-cost)>1e-9*(1+abs(cost)): errs.append(('hcost',m.holding_costs.get(dt,0.0),cost))
                accr[m.name]=cpn-cost
        # additive index
        V=root.values; P=root.prices; NV=root.notional_values; F=root.flows
        if abs(F[dt]-flows_today)>1e-9*(1+abs(flows_today)): errs.append(('flows',F[dt],flows_today))
        if di==0:
            pnl = V[dt]-0-flows_today; Nn = NV[dt]
            exp = 100 + (100*pnl/Nn if abs(Nn)>1e-16 else 0.0)
        else:
            pnl = V[dt]-V[dts[di-1]]-flows_today
            Nl=NV[dts[di-1]]; Nn=NV[dt]
            if abs(Nl)>1e-16: exp=P[dts[di-1]]+100*pnl/Nl
            elif abs(Nn)>1e-16: exp=P[dts[di-1]]+100*pnl/Nn
            else: exp=P[dts[di-1]]
        if abs(P[dt]-exp)>1e-9*(1+abs(exp)): errs.append(('addindex',str(dt),P[dt],exp,pnl))
        prev={'accr':accr}
        if errs: break
    if errs: return ('viol',errs[0][0]), (errs[:2], kinds)
    return 'ok',None
if __name__=='__main__':
    N=int(sys.argv[1]); cnt=collections.Counter(); ex={}
    for i in range(N):
        try: r,info=run(i)
        except Exception as e: r='HARNESS'; info=traceback.format_exc()[-600:]
        cnt[r]+=1
        if r not in('ok','zerodiv'): ex.setdefault(r,[]).append((i,info))
    for k,v in cnt.most_common():
        print(v,k)
        for e in ex.get(k,[])[:2]: print('    ',str(e)[:700])
