import sys, random, collections
import numpy as np, pandas as pd, bt
from bt import algos
import warnings; warnings.filterwarnings('ignore')

def period_key(kind, ts):
    ts = pd.Timestamp(ts)
    if kind=='D': return ts.date()
    if kind=='W': 
        iso = ts.isocalendar(); return (iso[0], iso[1])
    if kind=='M': return (ts.year, ts.month)
    if kind=='Q': return (ts.year, (ts.month-1)//3)
    if kind=='Y': return ts.year

def ref(kind, idx, first, eop, last):
    """idx includes synthetic row at 0. returns list of bool per position in idx"""
    n=len(idx); out=[]
    for i in range(n):
        if i==0: out.append(False); continue
        if i==1: out.append(bool(first)); continue
        if i==n-1: out.append(bool(last)); continue
        j = i+1 if eop else i-1
        out.append(period_key(kind, idx[i]) != period_key(kind, idx[j]))
    return out

def gen_index(rng):
    kind = rng.choice(['daily','bdaily','sparse','intraday','weekly','yearend'])
    start = pd.Timestamp(rng.choice(['2008-12-20','2009-12-24','2012-12-20','2014-12-22','2015-12-21','2018-12-24','2019-12-23','2020-02-20','2010-03-25','2016-06-25']))
    n = rng.randint(4,40)
    if kind=='daily': idx = pd.date_range(start, periods=n, freq='D')
    elif kind=='bdaily': idx = pd.date_range(start, periods=n, freq='B')
    elif kind=='weekly': idx = pd.date_range(start, periods=n, freq='W-FRI')
    elif kind=='intraday': idx = pd.date_range(start+pd.Timedelta(hours=9), periods=n, freq=rng.choice(['6h','30min','13h']))
    elif kind=='yearend': idx = pd.date_range(start, periods=n, freq='D')
    else:
        ds=[start]
        for i in range(n-1): ds.append(ds[-1]+pd.Timedelta(days=rng.choice([1,1,2,3,5,9,20,45,100,200,370])))
        idx = pd.DatetimeIndex(ds)
    return idx

CLS = {'D':algos.RunDaily,'W':algos.RunWeekly,'M':algos.RunMonthly,'Q':algos.RunQuarterly,'Y':algos.RunYearly}
def run(seed):
    rng=random.Random(seed)
    idx = gen_index(rng)
    data = pd.DataFrame({'a':np.arange(len(idx))+100.0}, index=idx)
    kind = rng.choice(list(CLS)); first=rng.random()<0.5; eop=rng.random()<0.5; last=rng.random()<0.5
    fired=[]
    class Spy(bt.Algo):
        def __call__(s,t): fired.append(t.now); return True
    s = bt.Strategy('s',[CLS[kind](run_on_first_date=first, run_on_end_of_period=eop, run_on_last_date=last), Spy()])
    t = bt.Backtest(s, data); t.run()
    full = t.data.index
    got = [d in fired for d in full]
    exp = ref(kind, full, first, eop, last)
    if got!=exp:
        bad=[(str(full[i]), got[i], exp[i], str(full[i-1]), str(full[i+1]) if i+1<len(full) else None) for i in range(len(full)) if got[i]!=exp[i]]
        return (kind, eop), bad[:2]
    return 'ok', None
cnt=collections.Counter(); ex={}
for i in range(int(sys.argv[1])):
    r,info=run(i); cnt[r]+=1
    if r!='ok': ex.setdefault(r,[]).append((i,info))
for k,v in cnt.most_common():
    print(v,k)
    for e in ex.get(k,[])[:4]: print('   ',e)
