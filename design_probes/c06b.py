import sys, random, collections
import numpy as np, pandas as pd, bt
from bt import algos
from bt.core import SecurityBase, StrategyBase
import warnings; warnings.filterwarnings('ignore')
AL=[]
_oa=SecurityBase.allocate
def alloc(self, amount, update=True):
    AL.append((self.full_name, amount, self._weight)); return _oa(self, amount, update)
SecurityBase.allocate=alloc
def rot(seed):
    rng=random.Random(seed); rs=np.random.RandomState(seed)
    n=rng.randint(2,4); cols=['t%d'%i for i in range(n)]; N=rng.randint(2,6)
    dts=pd.date_range('2020-01-01',periods=N+4,freq='B')
    flat=rng.random()<0.5
    px = np.tile(rs.uniform(20,200,size=n),(N+4,1)) if flat else 100*np.exp(np.cumsum(rs.randn(N+4,n)*0.02,axis=0))
    data=pd.DataFrame(px,index=dts,columns=cols)
    s=bt.Strategy('s',[]); s.use_integer_positions(False); s.setup(data); s.update(dts[0]); s.adjust(1e6); s.update(dts[0])
    for c in rng.sample(cols, rng.randint(0,n)): s.rebalance(rng.uniform(0.05,0.3), c)
    s.update(dts[0])
    W=dict(zip(cols,[float(x) for x in rs.dirichlet(np.ones(n))*rng.uniform(0.5,1)]))
    w0={c:(s.children[c].weight if c in s.children else 0.0) for c in cols}
    a=algos.RebalanceOverTime(N)
    for k in range(1,N+1):
        s.update(dts[k]); s.temp={}
        if k==1: s.temp['weights']=dict(W)
        a(s)
        if flat:
            for c in cols:
                exp=w0[c]+k*(W[c]-w0[c])/N; got=s.children[c].weight if c in s.children else 0.0
                if abs(got-exp)>1e-9: return 'VIOL-step',(k,c,got,exp)
    for c in cols:
        got=s.children[c].weight
        if abs(got-W[c])>1e-9: return 'VIOL-final',(c,got,W[c],flat)
    if a._weights is not None: return 'VIOL-armed',None
    return 'ok-flat' if flat else 'ok-moving',None
def sub(seed):
    rng=random.Random(seed); rs=np.random.RandomState(seed)
    cols=['t%d'%i for i in range(3)]; dts=pd.date_range('2020-01-01',periods=3,freq='B')
    data=pd.DataFrame(100*np.exp(np.cumsum(rs.randn(3,3)*0.02,axis=0)),index=dts,columns=cols)
    ch=bt.Strategy('ch',[],children=cols); root=bt.Strategy('r',[],children=[ch,'t0'])
    integer=rng.random()<0.5; root.use_integer_positions(integer)
    root.setup(data); root.update(dts[0]); root.adjust(1e6); root.update(dts[0])
    ch=root['ch']; root.rebalance(0.4,'ch')
    for c in cols: ch.rebalance(rng.uniform(0.1,0.3), c)
    root.update(dts[1])
    wbefore={c.full_name:c.weight for c in ch.children.values()}
    root.temp={'weights':{'ch':rng.uniform(0.2,0.8),'t0':0.1}}
    vch=ch.value; V=root.value
    del AL[:]; algos.Rebalance()(root)
    amount=root.temp['weights']['ch']*V - vch
    for nm,a,w in AL:
        if nm.startswith('r>ch>'):
            if abs(a-amount*wbefore[nm])>1e-9*(1+abs(a)): return 'VIOL-prop',(nm,a,amount*wbefore[nm])
    return 'ok-sub',None
cnt=collections.Counter(); ex={}
for i in range(int(sys.argv[1])):
    for f in (rot,sub):
        r,info=f(i); cnt[r]+=1
        if not r.startswith('ok'): ex.setdefault(r,[]).append((i,info))
print(cnt); 
for k,v in ex.items(): print(k,v[:3])
