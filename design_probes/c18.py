import sys, math, random, collections, traceback, copy
import numpy as np, pandas as pd
import bt
from bt import algos
from bt.core import StrategyBase, SecurityBase
from w2 import gen_backtest, COMMS
import warnings; warnings.filterwarnings('ignore')
import io, contextlib
def run(seed):
    make, desc, data, extras = gen_backtest(seed)
    random.seed(seed); np.random.seed(seed)
    t = make()
    try:
        with contextlib.redirect_stderr(io.StringIO()): res = bt.run(t)
    except Exception as e: return 'exc', None
    root=t.strategy; errs=[]
    if root.bankrupt: return 'bankrupt', None
    V=root.values
    try:
        W=t.weights
        for m in root.members:
            exp = m.values/V
            if not np.allclose(W[m.full_name].values, exp.values, rtol=1e-12, atol=0, equal_nan=True): errs.append(('weights',m.full_name))
        SW=t.security_weights
        secs=[m for m in root.members if isinstance(m,SecurityBase)]
        strs=[m for m in root.members if isinstance(m,StrategyBase)]
        byname=collections.defaultdict(list)
        for s in secs: byname[s.name].append(s)
        for n,lst in byname.items():
            exp = sum(s.values for s in lst)/V
            if n not in SW.columns or not np.allclose(SW[n].values, exp.values, rtol=1e-9, atol=1e-12, equal_nan=True): errs.append(('secweights',n,len(lst)))
        tot = SW.sum(axis=1) + sum(s.cash.loc[:root.now] for s in strs)/V
        ok = V.abs()>1e-9
        if not np.allclose(tot[ok].values, 1.0, atol=1e-9): errs.append(('sumto1', float((tot[ok]-1).abs().max())))
        POS=t.positions
        for n,lst in byname.items():
            exp=sum(s.positions for s in lst)
            if n not in POS.columns or not np.allclose(POS[n].values, exp.values, atol=1e-9): errs.append(('positions',n))
        hh = t.herfindahl_index
        if not np.allclose(hh.values, (SW**2).sum(axis=1).values, equal_nan=True): errs.append(('hhi',))
        to = t.turnover
        O = pd.DataFrame({n: sum(s.outlays for s in lst) for n,lst in byname.items()}) if byname else pd.DataFrame(index=V.index)
        pos_o = O.clip(lower=0).sum(axis=1); neg_o=(-O.clip(upper=0)).sum(axis=1)
        exp = pd.concat([pos_o,neg_o],axis=1).min(axis=1)/V
        if not np.allclose(to.values, exp.reindex(to.index).values, rtol=1e-9, atol=1e-12, equal_nan=True): errs.append(('turnover', ))
        if not np.array_equal(res.prices[t.name].values, root.prices.values): errs.append(('resultprice',))
    except Exception as e:
        errs.append(('report-exc', type(e).__name__, str(e)[:80], traceback.format_exc()[-300:]))
    try:
        tx = res.get_transactions()
        for n,lst in byname.items():
            exp=sum(s.positions for s in lst)
            if n in tx.index.get_level_values('Security'):
                q = tx.xs(n, level='Security')['quantity'].reindex(exp.index).fillna(0).cumsum()
            else: q = exp*0
            if not np.allclose(q.values, exp.values, atol=1e-6): errs.append(('txcum', n, len(lst)))
        # prices: for single-holder tickers: price == sec price + bidoffer_paid/q
        for n,lst in byname.items():
            if len(lst)!=1: 
                continue
            s=lst[0]
            if n not in tx.index.get_level_values('Security'): continue
            sub = tx.xs(n, level='Security')
            for dt,row in sub.iterrows():
                p = s.prices[dt]; q=row['quantity']
                bo = s.bidoffers_paid[dt] if 'bidoffer' in extras else 0.0
                exp = p + bo/q
                if not abs(row['price']-exp)<=1e-9*(1+abs(exp)): errs.append(('txprice',n,str(dt),row['price'],exp)); break
        for n,lst in byname.items():
            if len(lst)>1 and 'bidoffer' in extras and n in tx.index.get_level_values('Security'):
                sub = tx.xs(n, level='Security')
                for dt,row in sub.iterrows():
                    q=row['quantity']; p=lst[0].prices[dt]
                    bo=sum(s.bidoffers_paid.get(dt,0.0) for s in lst)
                    exp=p+bo/q
                    if not abs(row['price']-exp)<=1e-9*(1+abs(exp)): errs.append(('txprice-shared',n,str(dt),row['price'],exp)); break
    except Exception as e:
        errs.append(('tx-exc', type(e).__name__, str(e)[:60], len(secs)))
    if errs: return ('viol',)+tuple(errs[0][:1]), (desc, errs[:3])
    return 'ok', None
if __name__=='__main__':
    N=int(sys.argv[1]); base=int(sys.argv[2]) if len(sys.argv)>2 else 0
    cnt=collections.Counter(); ex={}
    for i in range(N):
        try: r, info = run(base+i)
        except Exception as e: r='HARNESS'; info=traceback.format_exc()[-600:]
        cnt[r]+=1
        if r not in ('ok','exc','bankrupt'): ex.setdefault(r,[]).append((base+i,info))
    for k,v in cnt.most_common():
        print(v,k)
        for e in ex.get(k,[])[:3]: print('    ', str(e)[:900])
