import sys, math, random, collections, traceback, copy
import numpy as np, pandas as pd
import bt
from bt.core import Security, StrategyBase, SecurityBase, Strategy
import warnings; warnings.filterwarnings('ignore')

COMMS = {
 'none': None,
 'prop': lambda q,p: abs(q)*p*0.001,
 'fixprop': lambda q,p: (1.0 + abs(q)*p*0.0005) if q!=0 else 0.0,
 'max1': lambda q,p: max(1.0, abs(q)*0.01),
}

def gen_tree(rng, tickers):
    """returns root StrategyBase"""
    def mkstrat(name, depth):
        kids = []
        nsec = rng.randint(0 if depth<2 else 1, 3)
        for tk in rng.sample(tickers, min(nsec,len(tickers))):
            r = rng.random()
            if r<0.5: kids.append(tk)        # lazy string
            else: kids.append(Security(tk, multiplier=rng.choice([1,1,10,0.5])))
        if depth < 2:
            for i in range(rng.randint(0,2)):
                kids.append(mkstrat('%s_%d'%(name,i), depth+1))
        if not kids: kids.append(tickers[0])
        return StrategyBase(name, children=kids)
    return mkstrat('r', 0)

def all_nodes(root): return root.members
def strategies(root): return [m for m in root.members if isinstance(m, StrategyBase)]
def securities(root): return [m for m in root.members if isinstance(m, SecurityBase)]

def check_identity(root, where, log):
    errs=[]
    for m in root.members:
        if isinstance(m, StrategyBase):
            v = m.value
            tot = m.capital + sum(c.value for c in m.children.values())
            scale = abs(m.capital)+sum(abs(c.value) for c in m.children.values())+1
            if abs(v-tot) > 1e-9*scale: errs.append(('value!=cash+children', m.full_name, v, tot))
            for c in m.children.values():
                w = c.weight
                ew = c.value/v if abs(v)>1e-16 else 0.0
                if abs(w-ew) > 1e-9*(1+abs(ew)): errs.append(('weight', c.full_name, w, ew, v))
        else:
            p = m.price
            ev = 0.0 if (m.position==0) else m.position*p*m.multiplier
            if not (abs(m.value-ev) <= 1e-9*(1+abs(ev))): errs.append(('secvalue', m.full_name, m.value, ev, m.position, p))
    return errs

def run_case(seed):
    rng = random.Random(seed)
    nd = rng.randint(3,8)
    tickers = ['t%d'%i for i in range(rng.randint(2,5))]
    dts = pd.date_range('2020-01-01', periods=nd, freq='B')
    rs = np.random.RandomState(seed)
    prices = 100*np.exp(np.cumsum(rs.randn(nd,len(tickers))*0.03,axis=0)) * rs.choice([1,0.1,5], size=len(tickers))
    data = pd.DataFrame(prices, index=dts, columns=tickers)
    root = gen_tree(rng, tickers)
    integer = rng.random()<0.5
    root.use_integer_positions(integer)
    cname = rng.choice(list(COMMS)); 
    if COMMS[cname]: root.set_commissions(COMMS[cname])
    kw={}
    spread = rng.random()<0.4
    if spread:
        kw['bidoffer'] = pd.DataFrame(rs.uniform(0,0.5,size=prices.shape), index=dts, columns=tickers)
    root.setup(data, **kw)
    log=[]; errs=[]
    # hook transact to log trades
    trades=[]
    for di,dt in enumerate(dts):
        root.update(dt)
        if di==0: root.adjust(1e6)
        nops = rng.randint(1,6)
        for k in range(nops):
            strats = strategies(root)
            s = rng.choice(strats)
            names = list(s.children.keys()) + list(s._lazy_children.keys())
            op = rng.choice(['adjust','allocate_child','allocate_self','rebalance','close','flatten','transact','update','read','rebalance_base'])
            v0 = None
            try:
                pre_v = root.value
                desc=(str(dt.date()),op,s.full_name)
                if op=='adjust':
                    a = rng.uniform(-1e5,2e5); fl = rng.random()<0.5
                    s.adjust(a, flow=fl); desc+=(a,fl)
                    exp = a if True else 0
                elif op=='allocate_child':
                    c = rng.choice(names); a = rng.uniform(-2e5,3e5)
                    s.allocate(a, child=c); desc+=(c,a); exp=0
                elif op=='allocate_self':
                    a = rng.uniform(-1e5,2e5); s.allocate(a); desc+=(a,); exp=0
                elif op=='rebalance':
                    c = rng.choice(names); w = rng.uniform(-0.5,0.8); s.rebalance(w, c); desc+=(c,w); exp=0
                elif op=='rebalance_base':
                    c = rng.choice(names); w = rng.uniform(-0.5,0.8); b = rng.uniform(1e4,1e6); s.rebalance(w, c, base=b); desc+=(c,w,b); exp=0
                elif op=='close':
                    if not s.children: continue
                    c = rng.choice(list(s.children.keys())); s.close(c); desc+=(c,); exp=0
                elif op=='flatten':
                    s.flatten(); exp=0
                elif op=='transact':
                    c = rng.choice(names); q = rng.randint(-500,500) if integer else rng.uniform(-500,500)
                    s.transact(q, child=c); desc+=(c,q); exp=0
                elif op=='update':
                    root.update(dt); exp=0
                elif op=='read':
                    exp=0
                    for m in root.members: m.value; m.weight
                log.append(desc)
            except ZeroDivisionError as e:
                return [], log
            except Exception as e:
                log.append(desc+('EXC',type(e).__name__,str(e)[:60]))
                errs.append(('EXC', desc, type(e).__name__, str(e)[:80]))
                return errs, log
            try:
                e = check_identity(root, desc, log)
            except ZeroDivisionError as ex:
                return [], log
            except Exception as ex:
                errs.append(('EXC', desc+('CHECK',), type(ex).__name__, str(ex)[:80])); return errs, log
            if e:
                errs.extend([(desc,)+x for x in e]); return errs, log
    return errs, log

if __name__=='__main__':
    N=int(sys.argv[1]); base=int(sys.argv[2]) if len(sys.argv)>2 else 0
    cnt=collections.Counter(); ex={}
    for i in range(N):
        try:
            errs, log = run_case(base+i)
        except Exception as e:
            cnt[("HARNESS",type(e).__name__,str(e)[:60])]+=1; continue
        if not errs: cnt['ok']+=1
        for er in errs[:1]:
            key = er[0] if er[0]=='EXC' else er[1]
            key = (key, er[2] if er[0]=='EXC' else '', (er[3] if er[0]=='EXC' else '')[:50], er[1][1] if er[0]=='EXC' else er[0][1])
            cnt[key]+=1
            ex.setdefault(key, (base+i, er, log[-4:]))
    for k,v in cnt.most_common(): 
        print(v,k)
        if k in ex: print('    ', ex[k])
