#!/usr/bin/env python3
"""Generate mutants/*.patch from the table below (string replacement on a scratch worktree of /repo's HEAD).
Each entry: (name, properties expected to notice, note, file, old, new). `old` must occur exactly once."""
import os
import subprocess
import sys
import tempfile

VERIF = os.path.dirname(os.path.dirname(os.path.abspath(__file__)))

M = [
    ("c01_needupdate_ignores_weight", "C01,C08", "flat security with a stale weight is skipped by the parent",
     "bt/core.py", "        if is_zero(self._weight) and is_zero(self._position):\n            self._needupdate = False",
     "        if is_zero(self._position):\n            self._needupdate = False"),
    ("c01_allocate_self_not_stale", "C01,C02,C08", "StrategyBase.allocate to self no longer marks the tree stale",
     "bt/core.py", "                [c.allocate(amount * c._weight, update=False) for c in self._childrenv]\n\n            # mark as stale if update requested\n            if update:\n                self.root.stale = True",
     "                [c.allocate(amount * c._weight, update=False) for c in self._childrenv]"),
    ("c01_weight_from_last_value", "C01", "child weights divided by the previous value instead of the current one",
     "bt/core.py", "                    if not is_zero(val):\n                        c._weight = c.value / val", "                    if not is_zero(val):\n                        c._weight = c.value / (self._last_value if newpt and not is_zero(self._last_value) else val)"),
    ("c02_custom_price_drops_multiplier", "C02,C07", "custom-price difference booked without the multiplier",
     "bt/core.py", "            bidoffer = q * (p - self._price) * self.multiplier", "            bidoffer = q * (p - self._price)"),
    ("c02_spread_rebate_on_sells", "C02,C05,C07", "half-spread signed by q: sells receive the spread",
     "bt/core.py", "            bidoffer = abs(q) * 0.5 * self._bidoffer * self.multiplier", "            bidoffer = q * 0.5 * self._bidoffer * self.multiplier"),
    ("c02_transfer_not_debited_when_negative", "C02,C07", "withdrawing capital from a sub-strategy is credited to the child only",
     "bt/core.py", "                self.parent.adjust(-amount, update=False, flow=False)", "                self.parent.adjust(-max(amount, 0.0) if self.parent.parent is not self.parent else -amount, update=False, flow=False)"),
    ("c03_flows_not_reset", "C03,C07", "net flows accumulate across dates",
     "bt/core.py", "        elif date != self.now:\n            self._net_flows = 0\n", "        elif date != self.now:\n"),
    ("c03_child_transfer_counted_as_flow", "C03", "transfers root->child booked as a root flow",
     "bt/core.py", "                self.parent.adjust(-amount, update=False, flow=False)\n\n            # adjust self's capital", "                self.parent.adjust(-amount, update=False, flow=True)\n\n            # adjust self's capital"),
    ("c03_return_on_last_value_only", "C03", "return computed on last value without net flows when flows are negative",
     "bt/core.py", "                    ret = self._value / (self._last_value + self._net_flows) - 1", "                    ret = self._value / (self._last_value + max(self._net_flows, 0.0)) - 1 if not is_zero(self._last_value) else self._value / bottom - 1"),
    ("c04_universe_unwindowed", "C04,C08,C19", "strategy universe no longer windowed to now",
     "bt/core.py", "            self._funiverse = self._universe.loc[: self.now]", "            self._funiverse = self._universe"),
    ("c04_invvol_lag_sign", "C04,C15", "WeighInvVol window shifted into the future by lag",
     "bt/algos.py", "        t0 = target.now - self.lag\n        prc = target.universe.loc[t0 - self.lookback : t0, selected]\n        tw = bt.ffn.calc_inv_vol_weights(", "        t0 = target.now + self.lag\n        prc = target._universe.loc[t0 - self.lookback : t0, selected]\n        tw = bt.ffn.calc_inv_vol_weights("),
    ("c04_setstat_peeks_next_row", "C04,C14", "SetStat reads the raw frame at now + lag",
     "bt/algos.py", "        t0 = target.now - self.lag\n        if t0 not in stat.index:", "        t0 = target.now + self.lag\n        if t0 not in stat.index:"),
    ("c04_weightarget_uses_latest_row", "C04,C15", "WeighTarget takes the last row of the frame when it has a row for now",
     "bt/algos.py", "            w = weights.loc[target.now]\n\n            # dropna and save", "            w = weights.iloc[-1] if len(weights) < 40 and weights.index[-1] != target.now else weights.loc[target.now]\n\n            # dropna and save"),
    ("c04_coupon_next_row", "C04,C17", "coupon accrual reads the next date's coupon",
     "bt/core.py", "        coupon = self._coupons.values[inow]\n", "        coupon = self._coupons.values[min(inow + 1, len(self._coupons.values) - 1)]\n"),
    ("c05_step_ignores_multiplier", "C05", "sizing step ignores the multiplier",
     "bt/core.py", "                dq_wout_considering_tx_costs = (full_outlay - amount) / (self._price * self.multiplier)", "                dq_wout_considering_tx_costs = (full_outlay - amount) / self._price"),
    ("c05_closeout_on_abs_value", "C05", "close-out shortcut also taken when amount equals plus the value of a short",
     "bt/core.py", "        if is_zero(amount + self._value):\n            q = -self._position", "        if is_zero(amount + self._value) or is_zero(amount - self._value):\n            q = -self._position"),
    ("c05_zero_price_allowed", "C05,C10", "zero price no longer refused",
     "bt/core.py", "        if is_zero(self._price) or np.isnan(self._price):\n            raise Exception(\"Cannot allocate capital to", "        if np.isnan(self._price):\n            raise Exception(\"Cannot allocate capital to"),
    ("c06_shorts_not_closed", "C06", "Rebalance leaves non-target children with negative value open",
     "bt/algos.py", "            if v != 0.0 and not np.isnan(v):\n                target.close(cname, update=False)", "            if v > 0.0 and not np.isnan(v):\n                target.close(cname, update=False)"),
    ("c06_rot_fixed_step", "C06", "RebalanceOverTime step not re-derived from periods left",
     "bt/algos.py", "                dlt = (self._weights[cname] - curr) / self._days_left", "                dlt = (self._weights[cname] - curr) / self.n"),
    ("c07_fee_not_reset", "C07", "fee accumulator not reset on date change",
     "bt/core.py", "            self._last_notl_value = self._notl_value\n            self._last_fee = 0.0\n", "            self._last_notl_value = self._notl_value\n"),
    ("c07_outlay_overwritten", "C07,C18", "second trade of a date overwrites the recorded outlay",
     "bt/core.py", "            self._outlays.array[inow] += self._outlay", "            self._outlays.array[inow] = self._outlay"),
    ("c07_fee_booked_without_fee_tag_on_sells", "C07", "fee of a sale not recorded in the fee series",
     "bt/core.py", "        self.parent.adjust(-full_outlay, update=update, flow=False, fee=fee)", "        self.parent.adjust(-full_outlay, update=update, flow=False, fee=fee if q > 0 else 0.0)"),
    ("c08_fees_unwindowed", "C08", "fees accessor returns the full-length series",
     "bt/core.py", "        return self._fees.loc[: self.now]", "        return self._fees"),
    ("c08_value_no_stale_check", "C08,C01", "Node.notional_value read does not refresh a stale tree",
     "bt/core.py", "        if self.root.stale:\n            self.root.update(self.root.now, None)\n        return self._notl_value", "        return self._notl_value"),
    ("c09_paper_amount", "C09", "paper shadow funded with another notional",
     "bt/core.py", "            self._paper_amount = 1000000", "            self._paper_amount = 100000"),
    ("c09_paper_skips_unfunded", "C09", "shadow not stepped while the child holds no capital",
     "bt/core.py", "            if newpt:\n                self._paper.update(date)\n                self._paper.run()\n                self._paper.update(date)", "            if newpt and not (is_zero(self._value) and is_zero(self._capital) and self.now != self.data.index[1]):\n                self._paper.update(date)\n                self._paper.run()\n                self._paper.update(date)"),
    ("c10_fi_nesting_guard_removed", "C10", "fixed-income child under a market-value parent accepted",
     "bt/core.py", "        if self.fixed_income and not self.parent.fixed_income:\n            raise ValueError(", "        if False and self.fixed_income and not self.parent.fixed_income:\n            raise ValueError("),
    ("c10_custom_price_guard_removed", "C10", "custom-price trade without bid/offer data accepted",
     "bt/core.py", "        if price is not None and not self._bidoffer_set:\n            raise ValueError(", "        if False and price is not None and not self._bidoffer_set:\n            raise ValueError("),
    ("c10_turnover_breaks_on_no_trades", "C10,C18", "turnover raises when no security exists",
     "bt/backtest.py", "        min_outlay = pd.DataFrame({\"pos\": outlaysp, \"neg\": outlaysn}).min(axis=1)", "        min_outlay = pd.DataFrame({\"pos\": outlaysp, \"neg\": outlaysn}).min(axis=1)\n        if outlays.shape[1] == 0:\n            raise ValueError(\"no outlays\")"),
    ("c11_rerun", "C11", "has_run no longer honoured",
     "bt/backtest.py", "        if self.has_run:\n            return\n", "        if self.has_run and not self.strategy.children:\n            return\n"),
    ("c11_universe_order_from_set", "C11,C19", "universe column order from set iteration again",
     "bt/core.py", "            valid_filter = [c for c in universe.columns if c in self._universe_tickers]", "            valid_filter = list(set(universe.columns).intersection(self._universe_tickers))"),
    ("c11_additional_data_written_through", "C11", "synthetic first row written into the caller's frame",
     "bt/backtest.py", "        self.additional_data = (additional_data or {}).copy()\n", "        self.additional_data = (additional_data or {}).copy()\n        for _k, _v in self.additional_data.items():\n            if isinstance(_v, pd.DataFrame) and _v.dtypes.iloc[0] == float and len(_v) and _v.index.equals(data.index):\n                _v.iloc[0] = _v.iloc[0].fillna(0.0)\n"),
    ("c12_quarter_ignores_year", "C12", "RunQuarterly compares the quarter number only",
     "bt/algos.py", "        if now.year != date_to_compare.year or now.quarter != date_to_compare.quarter:", "        if now.quarter != date_to_compare.quarter:"),
    ("c12_last_date_off", "C12", "last-date branch also taken on the penultimate row of long indices",
     "bt/algos.py", "        elif index == (len(target.data.index) - 1):", "        elif index >= (len(target.data.index) - 1) - (1 if len(target.data.index) > 35 else 0):"),
    ("c12_everyn_repeat_call", "C12", "RunEveryNPeriods counts repeated calls on one date",
     "bt/algos.py", "        if self.lcall == target.now:\n            return False", "        if self.lcall == target.now and self.idx != 0:\n            return False"),
    ("c13_run_always_false_runs", "C13", "algos with run_always=False run after a failure",
     "bt/core.py", "                elif hasattr(algo, \"run_always\"):\n                    if algo.run_always:\n                        algo(target)", "                elif hasattr(algo, \"run_always\"):\n                    algo(target)"),
    ("c13_or_short_circuits", "C13", "Or stops at the first branch that succeeds",
     "bt/algos.py", "            tempRes = algo(target)\n            res = res | tempRes", "            tempRes = algo(target)\n            res = res | tempRes\n            if res and len(self._list_of_algos) > 2:\n                break"),
    ("c13_children_before_stack", "C13", "children run before the own stack when the strategy has more than two children",
     "bt/core.py", "        # run algo stack\n        self.stack(self)\n\n        # run children\n        for c in self._childrenv:\n            c.run()", "        if len(self._childrenv) > 2:\n            for c in self._childrenv:\n                c.run()\n            self.stack(self)\n            return\n        # run algo stack\n        self.stack(self)\n\n        # run children\n        for c in self._childrenv:\n            c.run()"),
    ("c14_hasdata_strict", "C14", "SelectHasData requires more than min_count",
     "bt/algos.py", "        cnt = cnt[cnt >= self.min_count]", "        cnt = cnt[cnt > self.min_count]"),
    ("c14_selectn_rounds", "C14", "fractional n rounded instead of truncated",
     "bt/algos.py", "            keep_n = int(self.n * len(stat))", "            keep_n = int(round(self.n * len(stat)))"),
    ("c14_total_return_window_end", "C14,C04", "StatTotalReturn window ends at now instead of now - lag",
     "bt/algos.py", "        prc = target.universe.loc[t0 - self.lookback : t0, selected]\n        target.temp[\"stat\"] = prc.calc_total_return()", "        prc = target.universe.loc[t0 - self.lookback : target.now, selected]\n        target.temp[\"stat\"] = prc.calc_total_return()"),
    ("c14_selectthese_negative_filter", "C14", "SelectThese keeps zero prices",
     "bt/algos.py", "            universe = target.universe.loc[target.now, self.tickers].dropna()\n            if self.include_negative:\n                target.temp[\"selected\"] = list(universe.index)\n            else:\n                target.temp[\"selected\"] = list(universe[universe > 0].index)",
     "            universe = target.universe.loc[target.now, self.tickers].dropna()\n            if self.include_negative:\n                target.temp[\"selected\"] = list(universe.index)\n            else:\n                target.temp[\"selected\"] = list(universe[universe >= 0].index)"),
    ("c15_limitweights_boundary", "C15", "cap equal to 1/n treated as infeasible",
     "bt/algos.py", "        if self.limit < 1.0 / len(tw):", "        if self.limit <= 1.0 / len(tw):"),
    ("c15_limitdeltas_vs_target", "C15", "LimitDeltas limits the by-ticker case against zero instead of the live weight",
     "bt/algos.py", "                    if abs(delta) > lmt:\n                        tw[k] = cur + (lmt * np.sign(delta))", "                    if abs(delta) > lmt:\n                        tw[k] = (lmt * np.sign(delta))"),
    ("c15_targetvol_annualisation", "C15", "annualisation factor applied outside the square root",
     "bt/algos.py", "        vol = np.sqrt(np.matmul(weights.values.T, np.matmul(covar.values, weights.values)) * self.annualization_factor)\n\n        if isinstance(self.target_volatility", "        vol = np.sqrt(np.matmul(weights.values.T, np.matmul(covar.values, weights.values))) * (self.annualization_factor if self.annualization_factor < 100 else np.sqrt(self.annualization_factor))\n\n        if isinstance(self.target_volatility"),
    ("c15_pte_trigger_geq", "C15", "PTE trigger compares against half the cap for short lags",
     "bt/algos.py", "        if PTE_vol > self.PTE_volatility_cap:", "        if PTE_vol > self.PTE_volatility_cap * (0.5 if self.lag == pd.DateOffset(days=3) else 1.0):"),
    ("c16_algos_run_after_bankruptcy", "C16", "backtest keeps running the stack after bankruptcy",
     "bt/backtest.py", "            if not self.strategy.bankrupt:\n                self.strategy.run()", "            if not self.strategy.bankrupt or len(self.strategy.children) > 3:\n                self.strategy.run()"),
    ("c16_substrategy_flagged", "C16", "sub-strategies can be declared bankrupt",
     "bt/core.py", "        if self.root == self:\n            if (val < 0) and not self.bankrupt", "        if self.root == self or (self.parent.root == self.parent and val < -1e5):\n            if (val < 0) and not self.bankrupt"),
    ("c16_flag_not_reset", "C16", "setup does not clear the bankrupt flag",
     "bt/core.py", "        # We're not bankrupt yet\n        self.bankrupt = False\n", "        # We're not bankrupt yet\n"),
    ("c17_short_cost_sign", "C17,C02", "short holding cost booked with the wrong sign",
     "bt/core.py", "            self._holding_cost = -self._position * cost", "            self._holding_cost = self._position * cost"),
    ("c17_index_on_current_notional", "C17", "additive index divided by the current notional",
     "bt/core.py", "                    ret = pnl / self._last_notl_value * PAR", "                    ret = pnl / (self._notl_value if not is_zero(self._notl_value) else self._last_notl_value) * PAR"),
    ("c17_cphedge_counts_notional", "C17", "coupon-paying hedge counted in the strategy notional",
     "bt/core.py", "        super(CouponPayingHedgeSecurity, self).update(date, data, inow)\n        self._notl_value = 0.0", "        super(CouponPayingHedgeSecurity, self).update(date, data, inow)\n        self._notl_value = 0.0 if self._position >= 0 else self._position"),
    ("c18_security_weights_not_aggregated", "C18", "security weights of same-named securities overwrite each other",
     "bt/backtest.py", "                    if m.name in vals:\n                        vals[m.name] += m_values", "                    if m.name in vals:\n                        vals[m.name] = m_values"),
    ("c18_turnover_max", "C18", "turnover uses the larger of buys and sells",
     "bt/backtest.py", "        min_outlay = pd.DataFrame({\"pos\": outlaysp, \"neg\": outlaysn}).min(axis=1)", "        min_outlay = pd.DataFrame({\"pos\": outlaysp, \"neg\": outlaysn}).max(axis=1)"),
    ("c18_transactions_drop_closing_trades", "C18", "trades that flatten a position are dropped from the transaction list",
     "bt/core.py", "        trades = trades[trades != 0].unstack().dropna()", "        trades = trades[(trades != 0) & ~((positions == 0) & (trades < 0))].unstack().dropna()"),
    ("c19_lazy_child_integer_default", "C19", "children attached later do not inherit the position mode",
     "bt/core.py", "                    c._set_root(self.root)\n                    c.use_integer_positions(self.integer_positions)", "                    c._set_root(self.root)\n                    if dc:\n                        c.use_integer_positions(self.integer_positions)"),
    ("c19_strategy_column_missing", "C19,C09", "sub-strategy price not published when the child holds no capital",
     "bt/core.py", "                self._universe.loc[date, c] = self.children[c].price", "                if not is_zero(self.children[c]._value) or newpt and inow < 3:\n                    self._universe.loc[date, c] = self.children[c].price"),
    ("c20_risk_ignores_multiplier_for_shorts", "C20", "risk of short positions computed without the multiplier",
     "bt/algos.py", "                risk = unit_risk * target.position * target.multiplier", "                risk = unit_risk * target.position * (target.multiplier if target.position > 0 else 1.0)"),
    ("c20_history_depth", "C20", "history kept one level deeper than requested",
     "bt/algos.py", "        set_history = depth < self.history", "        set_history = depth <= self.history and self.history > 0"),
    ("c20_roll_not_marked", "C20", "rolled securities are not remembered",
     "bt/algos.py", "                target.perm[\"rolled\"].add(sec_name)\n                new_quantity", "                new_quantity"),
    ("c20_select_active_ignores_rolled", "C20", "SelectActive only filters closed securities",
     "bt/algos.py", "        selected = [s for s in selected if s not in set.union(rolled, closed)]", "        selected = [s for s in selected if s not in closed]"),
    ("c20_hedge_sign_pseudo", "C20", "pseudo-inverse hedge transacted with the wrong sign for the last instrument",
     "bt/algos.py", "        notionals = np.matmul(inv, -target_risk).flatten()", "        notionals = np.matmul(inv, -target_risk).flatten()\n        if self.pseudo and len(notionals) > len(self.measures):\n            notionals[-1] = -notionals[-1]"),
]


def main():
    outdir = os.path.join(VERIF, "mutants")
    os.makedirs(outdir, exist_ok=True)
    wt = tempfile.mkdtemp(prefix="mkmut_", dir="/tmp")
    os.rmdir(wt)
    subprocess.check_call(["git", "-C", "/repo", "worktree", "add", "-q", "--detach", wt, "HEAD"])
    try:
        for name, props, note, f, old, new in M:
            path = os.path.join(wt, f)
            s = open(path).read()
            if s.count(old) != 1:
                print("SKIP %s: anchor occurs %d times" % (name, s.count(old)))
                continue
            open(path, "w").write(s.replace(old, new))
            r = subprocess.run([sys.executable, "-c", "import ast,sys; ast.parse(open(sys.argv[1]).read())", path])
            d = subprocess.check_output(["git", "-C", wt, "diff"], text=True)
            subprocess.check_call(["git", "-C", wt, "checkout", "-q", "--", "."])
            if r.returncode != 0:
                print("SKIP %s: syntax error" % name)
                continue
            with open(os.path.join(outdir, name + ".patch"), "w") as fh:
                fh.write("# props: %s\n# note: %s\n" % (props, note))
                fh.write(d)
        print("wrote", len(os.listdir(outdir)), "patches")
    finally:
        subprocess.call(["git", "-C", "/repo", "worktree", "remove", "--force", wt])


if __name__ == "__main__":
    main()
