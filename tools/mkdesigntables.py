#!/usr/bin/env python3
"""Regenerate the two generated tables of DESIGN.md (9.4 seeded changes, 9.5 units) in place."""
import glob
import importlib
import json
import os
import re
import sys

VERIF = os.path.dirname(os.path.dirname(os.path.abspath(__file__)))
sys.path.insert(0, VERIF)


def seeded_table():
    rows = ["| seeded change | breaks | what it does | reported as |", "|---|---|---|---|"]
    for d in sorted(glob.glob(os.path.join(VERIF, "seeded", "*"))):
        m = json.load(open(os.path.join(d, "meta.json")))
        what = (m.get("summary") or m.get("what") or "").replace("|", "/").replace("\n", " ")[:170]
        p = m["breaks"]
        ch = (m.get("confirmation") or {}).get("checks", {}).get(p, {})
        mech = ", ".join("`%s`" % x for x in ch.get("mechanisms", [])[:3]) or ("exit %s" % ch.get("exit"))
        rows.append("| `%s` | %s | %s | %s |" % (os.path.basename(d), p, what, mech))
    return rows


def units_table():
    rows = ["| check | unit | quick cases × builds | thorough cases × builds |", "|---|---|---|---|"]
    for i in range(1, 21):
        mod = importlib.import_module("vf.props.c%02d" % i)
        q = {u["unit"]: u for u in mod.plan("quick")}
        t = {u["unit"]: u for u in mod.plan("thorough")}
        for u in q:
            rows.append("| C%02d | `%s` | %d × %s | %d × %s |" % (i, u, q[u]["n"], "+".join(q[u]["builds"]), t[u]["n"], "+".join(t[u]["builds"])))
    return rows


def replace_table(lines, header_prefix, new):
    i = next(k for k, ln in enumerate(lines) if ln.startswith(header_prefix))
    j = i
    while j < len(lines) and lines[j].startswith("|"):
        j += 1
    return lines[:i] + new + lines[j:]


def main():
    p = os.path.join(VERIF, "DESIGN.md")
    lines = open(p).read().split("\n")
    lines = replace_table(lines, "| seeded change | breaks |", seeded_table())
    lines = replace_table(lines, "| check | unit | quick cases", units_table())
    open(p, "w").write("\n".join(lines))


if __name__ == "__main__":
    main()
