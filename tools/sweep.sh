#!/bin/sh
# usage: tools/sweep.sh <tier> <seed-from> <seed-to> [ids...]  -> one line per (check, seed); evidence goes to a scratch dir
tier=$1; a=$2; b=$3; shift 3
ids=${@:-$(python3 -c "import json;print(' '.join(c['property_id'] for c in json.load(open('MANIFEST.json'))['checks']))")}
export VERIF_EVIDENCE_DIR=${VERIF_EVIDENCE_DIR:-/tmp/sweep_ev_$$}
for s in $(seq $a $b); do
  for p in $ids; do
    t0=$(date +%s)
    VERIF_SEED=$s ./check $p --tier $tier > sweep_${p}_${tier}_$s.log 2>&1; rc=$?
    echo "$p tier=$tier seed=$s exit=$rc wall=$(( $(date +%s) - t0 ))s viol=$(grep -c '^VIOLATION' sweep_${p}_${tier}_$s.log) known=$(grep -c '^KNOWN-FINDING' sweep_${p}_${tier}_$s.log) $(grep '^INCONCLUSIVE' sweep_${p}_${tier}_$s.log | cut -c1-160)"
    [ $rc -eq 0 ] && rm -f sweep_${p}_${tier}_$s.log
  done
done
