#!/usr/bin/env python3
"""Regenerate MANIFEST.json from the table below (kept in one place so that it stays valid)."""
import json
import os

HERE = os.path.dirname(os.path.dirname(os.path.abspath(__file__)))

CHECKS = {
    "C01": ("exploration", "invariant monitor at quiescent points (cached values read first, compared with input prices, after every operation / completed update / between algos) + snapshot-vs-recorded-row comparison + read-free identity over the recorded rows of every date (incl. bankruptcy dates of leveraged runs); market-value and fixed-income trees, real tree and paper shadows, both builds", "5.C01"),
    "C02": ("exploration", "conservation oracle over the recorded event log (trade/adjust wrappers with call-context tags): per-operation and per-date P&L attribution with costs, coupons and carry recomputed by the oracle; op sequences, stock-algo backtests, fixed-income backtests, replayed custom-price trades", "5.C02"),
    "C03": ("exploration", "reference-model monitor: index recurrence re-evaluated after every operation and date with EXTERNAL flows (adjustments issued from outside bt, by call context); pure-flow observations; metamorphic capital-scaling differential", "5.C03"),
    "C04": ("exploration", "differential fault injection on the future: re-run with perturbed post-cut data, bit-for-bit comparison of recorded frames, trade log and an observation-spy log up to the cut; cuts also placed right before a blank cell of a price / statistic / target frame gets its first value", "5.C04"),
    "C05": ("exploration", "pre/post-condition monitor around SecurityBase.allocate over a numeric sweep (cost, budget, maximality, close-out, refusal, zero amount at quoted and unquoted prices)", "5.C05"),
    "C06": ("exploration", "post-condition monitor at the exit of Rebalance / RebalanceOverTime calls on random prior portfolios and around every Rebalance call inside generated backtests (targets, closes, cash remainder, proportional spreading via the allocate log); same post-condition in notional terms around every Rebalance of fixed-income backtests whose dated targets drop names)", "5.C06"),
    "C07": ("exploration", "ledger reconciliation over recorded rows and the event log; exactly-once matching of every trade to one parent adjustment", "5.C07"),
    "C08": ("exploration", "idempotence/append-only monitors on raw snapshots under injected redundant updates and reads; deep-copy freshness differential; assembled frames (positions, outlays) vs the securities after a flush by another accessor; schedule-injection differential on backtests", "5.C08"),
    "C09": ("exploration", "differential monitor: nested child index vs the same definition run stand-alone, bit-for-bit per date; parent universe column vs child prices", "5.C09"),
    "C10": ("fault_enumeration", "completion monitor on generated well-formed runs (stock-algo, fixed-income, op-sequence and odd-calendar workloads: bt.run + every report accessor + finiteness scan) and fault injection of nine enumerated ill-formed classes (several variants each) that must raise", "5.C10"),
    "C11": ("exploration", "input-integrity digests before/after, order/interleaving differential from one shared template, cross-process differential over PYTHONHASHSEED values, re-run spy", "5.C11"),
    "C12": ("exploration", "reference-calendar monitor on every row of generated indices (direct calls and spy algos in real backtests); year-boundary grid enumerated", "5.C12"),
    "C13": ("exploration", "reference interpreter vs AlgoStack on the complete truth table of stacks up to length 5, sampled nested programs, spies for temp/perm/run order", "5.C13"),
    "C14": ("exploration", "reference-set monitor: temp['selected']/temp['stat'] after each selection algo vs an independent recomputation from the raw frame truncated at now; history-independence differential (same algo instances over consecutive dates vs fresh instances)", "5.C14"),
    "C15": ("exploration", "algebraic post-condition monitor on temp['weights'] after each weighting algo (sums, bounds, risk relations, ex-ante volatility, tracking-error trigger); LimitDeltas also on stale trees", "5.C15"),
    "C16": ("exploration", "history + trade-log + spy-algo oracle on leveraged runs with injected price shocks (flag, liquidation, terminality); calibrated zero-crossing through swept carry; bankruptcy on the entry / re-entry date and of hedge-only books; flag-at-every-completed-update monitor", "5.C16"),
    "C17": ("exploration", "invariant monitor after every fixed-income operation (notional, weights), coupon/cost/sweep/additive-index oracles from the input frames, Rebalance target spies", "5.C17"),
    "C18": ("exploration", "report-vs-history recomputation on finished runs and replay differential through ReplayTransactions", "5.C18"),
    "C19": ("exploration", "structural invariant checks on constructed trees (members vs a fresh walk after every growth step), universe probe algo inside running strategies, lazy-vs-eager differential", "5.C19"),
    "C20": ("exploration", "risk-aggregation reference, hedge post-condition vs numpy least squares, post-condition wrappers around close/roll algos with the trade log (also right after un-flushed quantity trades)", "5.C20"),
}

NOT_YET = {}


def main():
    checks = []
    for pid, (cat, tech, ref) in sorted(CHECKS.items()):
        checks.append({
            "property_id": pid,
            "quick_cmd": "./check %s --tier quick" % pid,
            "thorough_cmd": "./check %s --tier thorough" % pid,
            "evidence_file": "/verif/evidence/%s.json" % pid,
            "replay_cmd_template": "./check %s --replay {path}" % pid,
            "engine": "vf",
            "level_claimed": {
                "category": cat,
                "text": "Held on the generated executions of the real bt code (interpreted and cythonized builds of /repo's working tree) observed by "
                        "the monitors; evidence lists cases, events and monitor evaluations actually observed. Says nothing about executions the generators do not produce.",
                "design_ref": ref,
            },
            "level_note": "Trusted: the harness-side wrappers/oracles in /verif/vf, numpy/pandas arithmetic, the generators' reach. Known findings are matched by mechanism classifiers (known_findings.json).",
            "technique": "runtime monitoring: " + tech,
        })
    props = [json.loads(l)["id"] for l in open(os.path.join(HERE, "properties.jsonl"))]
    na = [{"property_id": p, "reason": NOT_YET.get(p, "monitor not yet registered in this revision (under construction, see DESIGN.md section 5)")} for p in props if p not in CHECKS]
    m = {
        "version": 1,
        "setup_cmd": "/venv/bin/python -m vf.build",
        "notes": "All checks: ./check <ID> --tier quick|thorough (VERIF_SEED, VERIF_TIER honoured). Exit 0 held / 1 VIOLATION / 2 INCONCLUSIVE (coverage floor not met).",
        "hooks": {
            "guard": "BT_VERIF",
            "enable": "no hooks are compiled into pmorissette/bt: instrumentation is installed at run time from /verif/vf/instrument.py on a scratch copy of /repo/bt (interpreted and cythonized)",
            "baseline_off_cmd": "cd /repo && /venv/bin/python -m pytest -ra -q -p no:cacheprovider --timeout=900 --continue-on-collection-errors",
            "source_commits": [],
            "add_only": True,
        },
        "engines": [{"name": "vf", "path": "/verif/vf", "serves_properties": sorted(CHECKS), "kind_free_text": "runtime monitors, event-log oracles and differential runs over generated workloads"}],
        "checks": checks,
        "not_applicable": na,
    }
    json.dump(m, open(os.path.join(HERE, "MANIFEST.json"), "w"), indent=1)
    print("MANIFEST.json: %d checks, %d not yet claimed" % (len(checks), len(na)))


if __name__ == "__main__":
    main()
