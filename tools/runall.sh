#!/bin/sh
# usage: tools/runall.sh <tier> <seed> [ids...]   -> prints exit code and wall time per check
tier=${1:-quick}; seed=${2:-0}; shift 2
ids=${@:-$(python3 -c "import json;print(' '.join(c['property_id'] for c in json.load(open('/verif/MANIFEST.json'))['checks']))")}
cd /verif
for p in $ids; do
  s=$(date +%s)
  VERIF_SEED=$seed ./check $p --tier $tier > /tmp/runall_${p}_${tier}_${seed}.log 2>&1
  rc=$?
  e=$(date +%s)
  echo "$p tier=$tier seed=$seed exit=$rc wall=$((e-s))s $(grep -c '^VIOLATION' /tmp/runall_${p}_${tier}_${seed}.log) violations $(grep -c '^KNOWN-FINDING' /tmp/runall_${p}_${tier}_${seed}.log) known $(grep '^INCONCLUSIVE' /tmp/runall_${p}_${tier}_${seed}.log | cut -c1-200)"
done
