#!/usr/bin/env python3
"""Self-validation: apply a property-breaking patch to a scratch worktree of /repo, confirm the repository's own tests still pass,
run the chosen checks against it (VERIF_REPO) and report which fired. Nothing is ever applied to /repo itself.

usage: tools/mutants.py run <patch> [--props C01,C07] [--tier quick] [--builds py] [--skip-tests]
       tools/mutants.py all [--only name-substring]      (runs every mutants/*.patch against the properties named in its header)
"""
import argparse
import glob
import json
import os
import re
import shutil
import subprocess
import sys
import tempfile
import time

VERIF = os.path.dirname(os.path.dirname(os.path.abspath(__file__)))
PY = "/venv/bin/python"


def header(patch):
    props, note = [], ""
    for ln in open(patch):
        m = re.match(r"#\s*props:\s*(.*)", ln)
        if m:
            props = [x.strip() for x in m.group(1).split(",") if x.strip()]
        m = re.match(r"#\s*note:\s*(.*)", ln)
        if m:
            note = m.group(1)
    return props, note


def run_one(patch, props, tier, builds, skip_tests, seed=0, keep=False):
    wt = tempfile.mkdtemp(prefix="mutwt_", dir="/tmp")
    os.rmdir(wt)
    subprocess.check_call(["git", "-C", "/repo", "worktree", "add", "-q", "--detach", wt, "HEAD"])
    out = {"patch": os.path.basename(patch), "results": {}}
    try:
        p = subprocess.run(["git", "-C", wt, "apply", os.path.abspath(patch)], stderr=subprocess.PIPE, text=True)
        if p.returncode != 0:
            out["error"] = "patch does not apply: " + p.stderr[-200:]
            return out
        if not skip_tests:
            t = subprocess.run([PY, "-m", "pytest", "-q", "-p", "no:cacheprovider", "-x"], cwd=wt, stdout=subprocess.PIPE, stderr=subprocess.STDOUT, text=True)
            out["tests"] = t.stdout.strip().splitlines()[-1] if t.stdout.strip() else "?"
            out["tests_pass"] = t.returncode == 0
        evd = tempfile.mkdtemp(prefix="mutev_", dir="/tmp")
        env = dict(os.environ, VERIF_REPO=wt, VERIF_EVIDENCE_DIR=evd, VERIF_REPLAY_DIR=os.path.join(evd, "replay"), VERIF_SEED=str(seed))
        if builds:
            env["VERIF_BUILDS"] = builds
        for pid in props:
            t0 = time.time()
            r = subprocess.run([os.path.join(VERIF, "check"), pid, "--tier", tier], env=env, stdout=subprocess.PIPE, stderr=subprocess.STDOUT, text=True)
            mechs = sorted(set(re.findall(r"mechanism=(\S+)", r.stdout)))
            inc = [ln[:160] for ln in r.stdout.splitlines() if ln.startswith("INCONCLUSIVE")]
            out["results"][pid] = {"exit": r.returncode, "mechanisms": mechs[:6], "inconclusive": inc[:1], "wall": round(time.time() - t0, 1),
                                   "known": len([ln for ln in r.stdout.splitlines() if ln.startswith("KNOWN-FINDING")])}
        shutil.rmtree(evd, ignore_errors=True)
        return out
    finally:
        if not keep:
            subprocess.call(["git", "-C", "/repo", "worktree", "remove", "--force", wt])
            shutil.rmtree(wt, ignore_errors=True)


def main():
    ap = argparse.ArgumentParser()
    ap.add_argument("cmd", choices=["run", "all"])
    ap.add_argument("patch", nargs="?")
    ap.add_argument("--props")
    ap.add_argument("--tier", default="quick")
    ap.add_argument("--builds", default="py")
    ap.add_argument("--skip-tests", action="store_true")
    ap.add_argument("--only")
    ap.add_argument("--seed", type=int, default=0)
    a = ap.parse_args()
    patches = [a.patch] if a.cmd == "run" else sorted(glob.glob(os.path.join(VERIF, "mutants", "*.patch")))
    if a.only:
        patches = [p for p in patches if a.only in p]
    summary = []
    for p in patches:
        props, note = header(p)
        if a.props:
            props = a.props.split(",")
        r = run_one(p, props, a.tier, a.builds, a.skip_tests, a.seed)
        r["note"] = note
        fired = [k for k, v in r["results"].items() if v["exit"] == 1]
        print("%-44s tests=%s  %s" % (r["patch"], r.get("tests", "-"), "  ".join("%s:%s%s" % (k, {0: "quiet", 1: "VIOLATION", 2: "inconclusive"}.get(v["exit"], v["exit"]),
                                                                                       ("[" + ",".join(v["mechanisms"][:2]) + "]") if v["mechanisms"] else "") for k, v in r["results"].items())))
        if r.get("error"):
            print("   ERROR", r["error"])
        sys.stdout.flush()
        summary.append(r)
    json.dump(summary, open("/tmp/mutants_last.json", "w"), indent=1)


if __name__ == "__main__":
    main()
