#!/usr/bin/env python3
"""Confirm an independently produced seeded change and run the checks against it (never touches /repo).

usage: tools/seeded.py confirm <dir with patch.diff demo.py meta.json> <name> [--props C05,C10] [--tier quick] [--builds py]
  1. fresh scratch worktree of /repo HEAD: demo.py must exit 0
  2. apply patch.diff: full test suite must pass, demo.py must exit non-zero
  3. run the named checks (default: the property in meta.json) against the patched tree via VERIF_REPO
  4. copy patch.diff, demo.py, meta.json (+ what was run and observed) to /verif/seeded/<name>/
"""
import argparse
import json
import os
import re
import shutil
import subprocess
import sys
import tempfile
import time

VERIF = os.path.dirname(os.path.dirname(os.path.abspath(__file__)))
PY = "/venv/bin/python"


def sh(cmd, cwd=None, env=None, timeout=3600):
    p = subprocess.run(cmd, cwd=cwd, env=env, stdout=subprocess.PIPE, stderr=subprocess.STDOUT, text=True, timeout=timeout)
    return p.returncode, p.stdout


def main():
    ap = argparse.ArgumentParser()
    ap.add_argument("cmd", choices=["confirm", "recheck"])
    ap.add_argument("src")
    ap.add_argument("name", nargs="?")
    ap.add_argument("--props")
    ap.add_argument("--tier", default="quick")
    ap.add_argument("--builds", default="py")
    ap.add_argument("--seed", type=int, default=0)
    ap.add_argument("--no-save", action="store_true")
    a = ap.parse_args()
    src = a.src
    name = a.name or os.path.basename(src.rstrip("/"))
    meta = json.load(open(os.path.join(src, "meta.json")))
    props = (a.props.split(",") if a.props else [meta.get("property") or meta.get("breaks")])
    wt = tempfile.mkdtemp(prefix="seedwt_", dir="/tmp")
    os.rmdir(wt)
    subprocess.check_call(["git", "-C", "/repo", "worktree", "add", "-q", "--detach", wt, "HEAD"])
    obs = {"repo_head": subprocess.check_output(["git", "-C", "/repo", "log", "--format=%h", "-1"], text=True).strip()}
    try:
        demo = os.path.abspath(os.path.join(src, "demo.py"))
        rc0, out0 = sh([PY, demo], cwd=wt)
        obs["demo_on_clean_tree"] = {"exit": rc0, "tail": out0.strip().splitlines()[-2:]}
        rc, out = sh(["git", "-C", wt, "apply", os.path.abspath(os.path.join(src, "patch.diff"))])
        if rc != 0:
            print("patch does not apply:", out[-300:])
            return 2
        rct, outt = sh([PY, "-m", "pytest", "-q", "-p", "no:cacheprovider"], cwd=wt)
        obs["tests_with_change"] = {"exit": rct, "summary": (outt.strip().splitlines() or ["?"])[-1]}
        rc1, out1 = sh([PY, demo], cwd=wt)
        obs["demo_with_change"] = {"exit": rc1, "tail": out1.strip().splitlines()[-3:]}
        confirmed = rc0 == 0 and rc1 != 0 and rct == 0
        obs["confirmed"] = confirmed
        print("%s: demo clean=%s changed=%s tests=%s -> %s" % (name, rc0, rc1, obs["tests_with_change"]["summary"], "CONFIRMED" if confirmed else "NOT CONFIRMED"))
        evd = tempfile.mkdtemp(prefix="seedev_", dir="/tmp")
        env = dict(os.environ, VERIF_REPO=wt, VERIF_EVIDENCE_DIR=evd, VERIF_REPLAY_DIR=os.path.join(evd, "replay"), VERIF_SEED=str(a.seed))
        if a.builds:
            env["VERIF_BUILDS"] = a.builds
        obs["checks"] = {}
        for pid in props:
            t0 = time.time()
            rcc, outc = sh([os.path.join(VERIF, "check"), pid, "--tier", a.tier], env=env)
            mechs = sorted(set(re.findall(r"mechanism=(\S+)", outc)))
            obs["checks"][pid] = {"cmd": "VERIF_REPO=<patched worktree> VERIF_BUILDS=%s VERIF_SEED=%d ./check %s --tier %s" % (a.builds, a.seed, pid, a.tier), "exit": rcc,
                                  "mechanisms": mechs[:8], "wall_s": round(time.time() - t0, 1),
                                  "inconclusive": [ln[:200] for ln in outc.splitlines() if ln.startswith("INCONCLUSIVE")][:1]}
            print("   %s -> exit %s %s %s" % (pid, rcc, mechs[:4], obs["checks"][pid]["inconclusive"]))
        shutil.rmtree(evd, ignore_errors=True)
        if (confirmed or a.cmd == "recheck") and not a.no_save:
            dst = os.path.join(VERIF, "seeded", name)
            os.makedirs(dst, exist_ok=True)
            for f in ("patch.diff", "demo.py"):
                if os.path.abspath(os.path.join(src, f)) != os.path.abspath(os.path.join(dst, f)):
                    shutil.copy2(os.path.join(src, f), os.path.join(dst, f))
            m2 = dict(meta)
            m2.setdefault("origin", "independent sub-agent given only the property text and a scratch worktree")
            m2["breaks"] = meta.get("property") or meta.get("breaks")
            m2["confirmation"] = obs
            json.dump(m2, open(os.path.join(dst, "meta.json"), "w"), indent=1)
        return 0 if confirmed else 1
    finally:
        subprocess.call(["git", "-C", "/repo", "worktree", "remove", "--force", wt])
        shutil.rmtree(wt, ignore_errors=True)


if __name__ == "__main__":
    sys.exit(main())
